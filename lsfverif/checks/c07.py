"""
C07  Retry and Catch follow the States Language error-handling policy.

Oracle: the reference interpreter's Retry/Catch policy (first matching retrier decides; k-th retry of that retrier after
IntervalSeconds x BackoffRate^k; at most MaxAttempts; then the first matching catcher with the Error Output placed by its
ResultPath into the state's ORIGINAL input; States.ALL excludes States.Runtime / execution time-out; counters do not leak
into the next state), compared with the real engine on (a) the final status/output/error name, (b) the number of task
invocations and (c) their instants on the virtual clock (exact under the canonical zero-latency schedule).
"""
import copy, json
from lsfverif.ref import asl as R
from lsfverif.gen import machines as G
from lsfverif.mon import scenario as S
from lsfverif.sim.world import EPOCH0

ID = "C07"
ENGINE = "simworld"
LEVEL = "fault_enumeration"
RULE = ("case = (retried state kind Task|Parallel|Map, retrier list of length 0..3, catcher list of length 0..3, finite sequence of task outcomes of length<=6: "
        "custom error names, silence against TimeoutSeconds (States.Timeout), then success or not; optionally a second retried state after it). Quick enumerates "
        "all outcome sequences of length<=3 over a 3-error alphabet for a fixed set of handler lists and samples the rest; thorough samples 100k. non-trivial = "
        ">=1 retry or a catch taken; distinct by canonical JSON of the case")
ASSUMPTIONS = ["Cause texts are not compared; States.TaskFailed in ErrorEquals is generated only against task-raised custom names; BackoffRate < 1 is not generated",
               "request instants are compared exactly because the schedule is canonical and workers answer with zero latency on the virtual clock",
               "reserved error names are produced only by real silence + TimeoutSeconds (a worker that *returns* errorType States.Timeout is out of scope)"]
FLOORS = {"evaluations": 2500, "compared": 2000, "nontrivial": 1200, "retries_expected": 2000, "catches_expected": 500, "request_instants_compared": 5000,
          "kind:Task": 1200, "kind:Parallel": 200, "kind:Map": 200, "timeouts_expected": 100, "chained": 200}
SHARDS = {"quick": 16, "thorough": 16}
TECHNIQUE = "reference-policy monitor over enumerated/sampled fault sequences; worker request log on the virtual clock"
LEVEL_TEXT = ("Retrier/catcher lists and finite task-outcome sequences are enumerated (small) and sampled (large); each is executed by the real engine in the simulated "
              "world and compared with the reference policy on outcome, number of invocations and exact invocation instants. Held = agreement on every case up to the listed finding.")
LEVEL_NOTE = "trusts the reference interpreter's Retry/Catch implementation (~60 lines) and the virtual clock; instants are exact only under the canonical schedule used here"
DESIGN_REF = "DESIGN.md section 6, C07"

ERRS = ["E1", "E2", "Custom.Error"]
EXEC = "arn:aws:states:local:0123456789:execution:m:e"


def gen_retriers(rng, n=None, with_timeout=False):
    n = rng.randint(0, 3) if n is None else n
    out = []
    pool = ERRS + (["States.Timeout"] if with_timeout else [])
    for i in range(n):
        last = i == n - 1
        if last and rng.random() < 0.3:
            ee = ["States.ALL"]
        elif rng.random() < 0.1:
            ee = ["States.TaskFailed"]
        else:
            ee = rng.sample(pool, rng.randint(1, 2))
        r = {"ErrorEquals": ee}
        if rng.random() < 0.8:
            r["IntervalSeconds"] = rng.randint(1, 5)
        if rng.random() < 0.8:
            r["MaxAttempts"] = rng.randint(0, 3)
        if rng.random() < 0.7:
            r["BackoffRate"] = rng.choice([1.0, 1.5, 2.0, 3.0])
        out.append(r)
    return out


def gen_catchers(rng, nxt, n=None, with_timeout=False):
    n = rng.randint(0, 3) if n is None else n
    out = []
    pool = ERRS + (["States.Timeout"] if with_timeout else [])
    for i in range(n):
        last = i == n - 1
        ee = ["States.ALL"] if (last and rng.random() < 0.4) else rng.sample(pool, rng.randint(1, 2))
        c = {"ErrorEquals": ee, "Next": nxt}
        rp = rng.choice(["absent", "$", "$.e", "$.e", None])
        if rp != "absent":
            c["ResultPath"] = rp
        out.append(c)
    return out


def gen_outcomes(rng, max_len=6, with_timeout=False):
    seq = []
    for _ in range(rng.randint(0, max_len)):
        if with_timeout and rng.random() < 0.25:
            seq.append(["silent"])
        else:
            seq.append(["err", rng.choice(ERRS), "boom"])
    if rng.random() < 0.7:
        seq.append(["ok", {"done": len(seq)}])
    elif not seq:
        seq.append(["ok", 1])
    return seq


def make_case(kind, retriers, catchers, outcomes, timeout=None, chained=None, inp=None, map_opts=None):
    """The retried state is 'R'; its work is task 't' whose outcomes follow `outcomes` (last one repeats)."""
    task = {"Type": "Task", "Resource": G.FN_PREFIX + "t"}
    if timeout:
        task["TimeoutSeconds"] = timeout
    handlers = {}
    if retriers:
        handlers["Retry"] = retriers
    if catchers:
        handlers["Catch"] = catchers
    if kind == "Task":
        r = dict(task, **handlers)
    elif kind == "Parallel":
        r = dict({"Type": "Parallel", "Branches": [{"StartAt": "T", "States": {"T": dict(task, End=True)}},
                                                   {"StartAt": "Q", "States": {"Q": {"Type": "Pass", "End": True}}}]}, **handlers)
    else:
        proc = {"StartAt": "T", "States": {"T": dict(task, End=True)}}
        if map_opts and map_opts.get("prep"):
            proc = {"StartAt": "Prep", "States": {"Prep": {"Type": "Pass", "Next": "T"}, "T": dict(task, End=True)}}
        r = dict({"Type": "Map", "ItemsPath": "$.items", "ItemProcessor": proc}, **handlers)
        if map_opts and map_opts.get("mc") is not None:
            r["MaxConcurrency"] = map_opts["mc"]
    r["ResultPath"] = "$.res"
    # the continuation wraps the document so that a caught Error Output placed at "$" is not the top-level document at the
    # End state (the engine's in-band Error convention is a different, listed finding)
    states = {"R": dict(r, Next="AfterOk"), "AfterOk": {"Type": "Pass", "Parameters": {"data.$": "$", "took": "ok-path"}, "Next": "Z"},
              "Caught": {"Type": "Pass", "Parameters": {"data.$": "$", "took": "catch-path"}, "Next": "Z"}}
    funcs = {"t": ["seq", outcomes]}
    if chained:
        # a second retried state: its counters must start from zero
        r2, outcomes2 = chained
        states["Z"] = dict({"Type": "Task", "Resource": G.FN_PREFIX + "u", "ResultPath": "$.res2", "Retry": r2}, Next="End")
        states["End"] = {"Type": "Succeed"}
        funcs["u"] = ["seq", outcomes2]
    else:
        states["Z"] = {"Type": "Succeed"}
    asl = {"StartAt": "R", "States": states}
    data = inp if inp is not None else {"k": 1, "items": [{"i": 0}]}
    if map_opts and map_opts.get("n"):
        data = dict(data, items=[{"i": j} for j in range(map_opts["n"])])
    scn = {"machines": {"m": {"asl": asl}}, "funcs": funcs, "starts": [{"machine": "m", "name": "e", "input": data}]}
    return dict(asl=asl, input=data, funcs=funcs, scenario=scn, kind=kind)


def reference(case, shared=False):
    return R.outcomes(case["asl"], lambda: G.task_oracle(case["funcs"]), case["input"], exec_id=EXEC, exec_name="e", shared_retry_counter=shared, start_time=0.0)


def compare(ctx, case, tag="gen"):
    ctx.evaluation()
    try:
        outs = reference(case)
    except R.Unspecified as u:
        ctx.count("unspecified"); ctx.count("unspecified:" + str(u)[:40])
        return
    if len({o.key() for o in outs}) != 1:
        ctx.count("unspecified"); return
    o = outs[0]
    run = S.execute(case["scenario"], seed=ctx.seed, monitors=("notes",), settle=False)
    try:
        arn = run.execs[0]
        st, out, err, t = run.outcomes.get(arn, ("NONE", None, None, None))
        ctx.count("compared")
        ctx.count("kind:" + case["kind"])
        ctx.count("retries_expected", o.facts["retries"]); ctx.count("catches_expected", o.facts["caught"])
        if "u" in case["funcs"]:
            ctx.count("chained")
        if any(x == ["silent"] for x in case["funcs"]["t"][1]):
            ctx.count("timeouts_expected")
        key = dict(asl=case["asl"], funcs=case["funcs"], input=case["input"])
        ctx.distinct("cases", key)
        if o.facts["retries"] or o.facts["caught"]:
            ctx.nontrivial(key)
        eng_reqs = sorted((r["t"], fn) for fn, rs in run.requests.items() for r in rs)
        ref_reqs = sorted((r["t"], r["fn"]) for r in o.requests)
        ctx.count("request_instants_compared", len(ref_reqs))
        problems = []
        if not (o.status == st and (R.matches(o.output, out) if st == "SUCCEEDED" else o.error == err)):
            problems.append("outcome")
        if len(eng_reqs) != len(ref_reqs):
            problems.append("number-of-invocations")
        elif any(abs(a[0] - b[0]) > 1e-6 or a[1] != b[1] for a, b in zip(eng_reqs, ref_reqs)):
            problems.append("invocation-instants")
        if st != "NONE" and t is not None and abs((t - EPOCH0) - o.t) > 1e-6 and not problems:
            problems.append("terminal-instant")
        if ctx.counters["compared"] % 499 == 1:
            ctx.sample(dict(state=case["asl"]["States"]["R"], outcomes=case["funcs"]["t"][1], expected=repr(o), ref_requests=ref_reqs, engine=[st, out, err], engine_requests=eng_reqs))
        if problems:
            mech = None
            try:
                alt = reference(case, shared=True)
                a = alt[0]
                alt_reqs = sorted((r["t"], r["fn"]) for r in a.requests)
                if o.facts.get("multi_retrier") or a.facts.get("multi_retrier"):
                    if a.status == st and (R.matches(a.output, out) if st == "SUCCEEDED" else a.error == err) and len(alt_reqs) == len(eng_reqs) and \
                            all(abs(x[0] - y[0]) < 1e-6 for x, y in zip(eng_reqs, alt_reqs)):
                        mech = "retry-shared-counter"       # delta test: the run is exactly what one shared counter per state produces
            except R.Unspecified:
                pass
            if mech is None and o.facts.get("error_member_values") and "outcome" in problems:
                mech = "inband-error-member"
            ctx.violation("retry-catch-policy:" + "+".join(problems),
                          S.witness_of(run, dict(expected=repr(o), ref_requests=ref_reqs, engine=[st, out, err], engine_requests=eng_reqs, family=tag,
                                                  terminal_t=(t - EPOCH0) if t else None)), mech)
    finally:
        S.close(run)


FIXED_HANDLERS = [
    ([{"ErrorEquals": ["E1"], "IntervalSeconds": 2, "MaxAttempts": 2, "BackoffRate": 1.5}], []),
    ([{"ErrorEquals": ["E1"], "IntervalSeconds": 2, "MaxAttempts": 2, "BackoffRate": 1.5}, {"ErrorEquals": ["E2"], "IntervalSeconds": 3, "MaxAttempts": 2, "BackoffRate": 2.0}], []),
    ([{"ErrorEquals": ["E1", "E2"], "MaxAttempts": 0}], [{"ErrorEquals": ["E2"], "Next": "Caught", "ResultPath": "$.e"}]),
    ([{"ErrorEquals": ["States.ALL"]}], [{"ErrorEquals": ["States.ALL"], "Next": "Caught"}]),
    ([], [{"ErrorEquals": ["E1"], "Next": "Caught", "ResultPath": None}, {"ErrorEquals": ["States.ALL"], "Next": "Caught", "ResultPath": "$"}]),
    ([{"ErrorEquals": ["Custom.Error"], "IntervalSeconds": 1, "MaxAttempts": 3, "BackoffRate": 3.0}], [{"ErrorEquals": ["E1", "Custom.Error"], "Next": "Caught", "ResultPath": "$.e"}]),
    ([{"ErrorEquals": ["States.TaskFailed"], "IntervalSeconds": 1, "MaxAttempts": 1}], [{"ErrorEquals": ["States.TaskFailed"], "Next": "Caught", "ResultPath": "$.e"}]),
]


def all_sequences(max_len):
    import itertools
    elems = [["err", e, "boom"] for e in ERRS]
    for n in range(0, max_len + 1):
        for combo in itertools.product(elems, repeat=n):
            yield [list(x) for x in combo] + [["ok", {"done": n}]]
            if n:
                yield [list(x) for x in combo]


def run(ctx):
    i = 0
    # exhaustive part: every outcome sequence of length <= 3 against the fixed handler lists, on a Task
    for hi, (rs, cs) in enumerate(FIXED_HANDLERS):
        for seq in all_sequences(3):
            i += 1
            if ctx.mine(i):
                compare(ctx, make_case("Task", copy.deepcopy(rs), copy.deepcopy(cs), seq), "exhaustive")
    i = execution_timeout_cases(ctx, i)
    # long back-offs: hours and days between attempts (the k-th delay is IntervalSeconds x BackoffRate^k whatever its size)
    for interval, rate, attempts in ((21600, 3.0, 3), (86400, 2.0, 2), (90000, 1.0, 2), (3600, 5.0, 4), (86399, 1.5, 3)):
        for n_fail in (1, 2, 3, 4):
            i += 1
            if not ctx.mine(i):
                continue
            seq = [["err", "E1", "x"]] * n_fail + [["ok", {"done": n_fail}]]
            case = make_case("Task", [{"ErrorEquals": ["E1"], "IntervalSeconds": interval, "MaxAttempts": attempts, "BackoffRate": rate}],
                             [{"ErrorEquals": ["States.ALL"], "Next": "Caught", "ResultPath": "$.e"}], seq)
            case["scenario"]["config"] = {"execution_ttl": 10 ** 8}
            ctx.count("long_backoff_cases")
            compare(ctx, case, "long-backoff")
    # sampled part
    n = ctx.pick(2500, 100000)
    for k in range(n):
        i += 1
        if not ctx.mine(i):
            continue
        rng = ctx.rng("case", k)
        kind = rng.choice(["Task", "Task", "Task", "Parallel", "Map"])
        with_to = kind == "Task" and rng.random() < 0.25
        rs = gen_retriers(rng, with_timeout=with_to)
        cs = gen_catchers(rng, "Caught", with_timeout=with_to)
        seq = gen_outcomes(rng, 6, with_timeout=with_to)
        chained = None
        if rng.random() < 0.25:
            chained = (gen_retriers(rng, rng.randint(1, 2)), gen_outcomes(rng, 3))
        inp = rng.choice([None, {"k": 1, "items": [{"i": 0}], "e": "old"}, {"items": [{"i": 0}]}])
        map_opts = None
        if kind == "Map" and rng.random() < 0.6:
            map_opts = dict(n=rng.randint(1, 3), mc=rng.choice([None, 1, 1, 2]), prep=rng.random() < 0.5)
            ctx.count("map_multi_item_or_batched")
        compare(ctx, make_case(kind, rs, cs, seq, timeout=rng.randint(2, 6) if with_to else None, chained=chained, inp=inp, map_opts=map_opts))


def execution_timeout_cases(ctx, i0):
    """The execution time-out is not an error of the state: no Retrier or Catcher (not even States.ALL / States.Timeout) may take it.  The retried Task is the start
    state, its worker never answers; the execution's TimeoutSeconds expires before the Task's own (or at the very same instant: whatever the tie means, nothing
    may be invoked after the execution's deadline and the execution cannot end later than it)."""
    i = i0
    for x in (2, 3, 5):
        for task_to in (x, x + 2, None):
            for names in (["States.ALL"], ["States.Timeout"], ["States.TaskFailed", "States.Timeout"]):
                for how in ("retry", "catch", "retry+catch"):
                    i += 1
                    if not ctx.mine(i):
                        continue
                    ctx.evaluation(); ctx.count("execution_timeout_cases")
                    r = {"Type": "Task", "Resource": G.FN_PREFIX + "t", "ResultPath": "$.res", "Next": "Z"}
                    if task_to:
                        r["TimeoutSeconds"] = task_to
                    if "retry" in how:
                        r["Retry"] = [{"ErrorEquals": names, "IntervalSeconds": 1, "MaxAttempts": 2, "BackoffRate": 1.0}]
                    if "catch" in how:
                        r["Catch"] = [{"ErrorEquals": names, "Next": "Caught", "ResultPath": "$.e"}]
                    asl = {"TimeoutSeconds": x, "StartAt": "R", "States": {"R": r, "Caught": {"Type": "Task", "Resource": G.FN_PREFIX + "v", "Next": "Z"}, "Z": {"Type": "Succeed"}}}
                    scn = {"machines": {"m": {"asl": asl}}, "funcs": {"t": ["silent"], "v": ["slow", 1]}, "starts": [{"machine": "m", "name": "e", "input": {"k": 1}}]}
                    run = S.execute(scn, seed=ctx.seed, monitors=("notes",), settle=False)
                    try:
                        st, out, err, t = run.outcomes.get(run.execs[0], ("NONE", None, None, None))
                        reqs = sorted((round(q["t"] - EPOCH0, 6), fn) for fn, rs in run.requests.items() for q in rs)
                        ctx.count("compared"); ctx.distinct("cases", asl); ctx.nontrivial(asl)
                        problems = []
                        if [fn for _, fn in reqs] != ["t"]:
                            problems.append("number-of-invocations")
                        if any(tt > x + 1e-6 for tt, _ in reqs):
                            problems.append("invocation-after-the-execution-deadline")
                        if not (st == "FAILED" and err == "States.Timeout"):
                            problems.append("outcome")
                        elif t is not None and abs((t - EPOCH0) - x) > 1e-6:
                            problems.append("terminal-instant")
                        if problems:
                            ctx.violation("execution-timeout-taken-by-a-retrier-or-catcher:" + "+".join(problems),
                                          S.witness_of(run, dict(engine=[st, out, err], engine_requests=reqs, terminal_t=(t - EPOCH0) if t else None, family="execution-timeout")), None)
                    finally:
                        S.close(run)
    return i


WITNESS = make_case("Task", [{"ErrorEquals": ["E1"], "IntervalSeconds": 2, "MaxAttempts": 2, "BackoffRate": 1.5},
                             {"ErrorEquals": ["E2"], "IntervalSeconds": 3, "MaxAttempts": 2, "BackoffRate": 2.0}], [],
                    [["err", "E1", "x"], ["err", "E2", "x"], ["err", "E1", "x"], ["ok", 1]])


def witnesses(ctx):
    sub = type(ctx)(ctx.check_id, ctx.tier, ctx.seed)
    compare(sub, WITNESS, "witness")
    hit = [v for v in sub.violations if v["mechanism"] == "retry-shared-counter"]
    ctx.witness("retry-shared-counter", bool(hit), hit[0]["witness"] if hit else None)
    for v in sub.violations:
        if v["mechanism"] != "retry-shared-counter":
            ctx.violation(v["kind"], v["witness"], v["mechanism"])


def replay(ctx, doc):
    w = doc["witness"]
    scn = w["scenario"]
    if w.get("family") == "execution-timeout":
        run = S.execute(scn, seed=w.get("seed", 0), monitors=("notes",), settle=False)
        print("machine:", json.dumps(scn["machines"]["m"]["asl"]))
        print("engine:", run.outcomes, "requests:", sorted((q["t"] - EPOCH0, fn) for fn, rs in run.requests.items() for q in rs))
        print("expected: one request to t, none after the execution's TimeoutSeconds, FAILED States.Timeout at the deadline")
        S.close(run)
        return
    case = dict(asl=scn["machines"]["m"]["asl"], input=scn["starts"][0]["input"], funcs=scn["funcs"], scenario=scn,
                kind=scn["machines"]["m"]["asl"]["States"]["R"]["Type"])
    print("reference:", reference(case)[0], [(r["t"], r["fn"]) for r in reference(case)[0].requests])
    compare(ctx, case, "replay")
