"""
Runtime contracts (icontract) on the repository's pure path/template/ARN functions.

The contracts are attached from outside: the wrapped functions are rebound in the defining module
*and* in every importing module's namespace (`from m import f` binds early), so that they are evaluated
both when a check calls the function directly and in situ, inside every simulated execution.
Conditions only RECORD (a raising contract inside the engine would be swallowed by its catch-all and
turned into States.Runtime); the checks read `violations` and `evaluations`.
Zero evaluations => the check reports inconclusive.
"""
import copy, json, math, collections
import icontract

violations = []            # dicts(contract, function, detail)
evaluations = collections.Counter()
_installed = False


def finite_json(x, depth=0, seen=None):
    """True iff x is a finite tree of JSON values (no cycles, no shared-by-cycle containers, finite floats, string keys)."""
    seen = seen if seen is not None else set()
    if depth > 200:
        return False
    if x is None or isinstance(x, (str, bool, int)):
        return True
    if isinstance(x, float):
        return math.isfinite(x)
    if isinstance(x, (list, dict)):
        if id(x) in seen:
            return False
        seen.add(id(x))
        ok = all(finite_json(v, depth + 1, seen) for v in (x.values() if isinstance(x, dict) else x)) and \
            (not isinstance(x, dict) or all(isinstance(k, str) for k in x))
        seen.discard(id(x))
        return ok
    return False


def _snap(x):
    try:
        return copy.deepcopy(x)
    except RecursionError:
        return "<cyclic>"


def differs(a, b):
    """a != b for JSON values; cyclic structures (already reported by the finite-tree contracts) compare as equal."""
    try:
        return a != b
    except RecursionError:
        return False


def _record(contract, function, **detail):
    if len(violations) < 200:
        violations.append(dict(contract=contract, function=function, detail=detail))


# --- condition functions (argument names must match the wrapped function's) -----------------------------
def snap_input(input):
    return _snap(input)


def snap_context(context):
    return _snap(context)


def snap_template(template):
    return _snap(template)


def snap_result(result):
    return _snap(result)


def read_leaves_input_alone(input, path, OLD):
    evaluations["apply_jsonpath.no-mutation"] += 1
    if differs(input, OLD.input_before):
        _record("read-does-not-mutate-document", "apply_jsonpath", path=path, before=OLD.input_before, after=_snap(input))
    return True


def read_leaves_args_alone(input, context, path, OLD):
    evaluations["apply_path.no-mutation"] += 1
    if differs(input, OLD.input_before) or differs(context, OLD.context_before):
        _record("read-does-not-mutate-document", "apply_path", path=path, before=OLD.input_before, after=_snap(input))
    return True


def _resultpath_ensure(result_of_call, input, result, path, OLD):
    evaluations["apply_resultpath.finite-tree"] += 1
    if not finite_json(result_of_call):
        _record("resultpath-output-is-finite-json-tree", "apply_resultpath", path=path, input=OLD.input_before, result=OLD.result_before)
    return True


def _template_ensure(result_of_call, input, context, template, OLD):
    evaluations["evaluate_payload_template.no-mutation"] += 1
    if differs(template, OLD.template_before):
        _record("template-not-mutated", "evaluate_payload_template", template=OLD.template_before, after=_snap(template))
    if differs(input, OLD.input_before):
        _record("template-input-not-mutated", "evaluate_payload_template", template=OLD.template_before, before=OLD.input_before, after=_snap(input))
    if differs(context, OLD.context_before):
        _record("template-context-not-mutated", "evaluate_payload_template", template=OLD.template_before)
    if not finite_json(result_of_call):
        _record("template-output-is-finite-json-tree", "evaluate_payload_template", template=OLD.template_before, input=OLD.input_before)
    return True


def wrap(paths_mod):
    """Returns dict name -> contracted function for state_engine_paths."""
    out = {}
    f = paths_mod.apply_jsonpath
    f = icontract.ensure(read_leaves_input_alone, error=AssertionError)(f)
    f = icontract.snapshot(snap_input, name="input_before")(f)
    out["apply_jsonpath"] = f

    g = paths_mod.apply_path
    g = icontract.ensure(read_leaves_args_alone, error=AssertionError)(g)
    g = icontract.snapshot(snap_input, name="input_before")(g)
    g = icontract.snapshot(snap_context, name="context_before")(g)
    out["apply_path"] = g

    h0 = paths_mod.apply_resultpath

    # icontract names the return value `result`, which collides with apply_resultpath's own `result`
    # parameter, so this one is wrapped by hand with the same snapshot/ensure discipline.
    def apply_resultpath(input, result, path="$"):
        class OLD(object):
            pass
        OLD.input_before, OLD.result_before = _snap(input), _snap(result)
        out_ = h0(input, result, path)
        _resultpath_ensure(out_, input, result, path, OLD)
        return out_
    apply_resultpath.__wrapped__ = h0
    out["apply_resultpath"] = apply_resultpath

    t0 = paths_mod.evaluate_payload_template

    def evaluate_payload_template(input, context, template):
        class OLD(object):
            pass
        OLD.input_before, OLD.context_before, OLD.template_before = _snap(input), _snap(context), _snap(template)
        out_ = t0(input, context, template)
        _template_ensure(out_, input, context, template, OLD)
        return out_
    evaluate_payload_template.__wrapped__ = t0
    out["evaluate_payload_template"] = evaluate_payload_template
    return out


def install():
    """Rebind the contracted functions in state_engine_paths and state_engine (idempotent)."""
    global _installed
    import asl_workflow_engine.state_engine_paths as P
    import asl_workflow_engine.state_engine as S
    if _installed:
        return
    w = wrap(P)
    for name, fn in w.items():
        setattr(P, name, fn)
        if hasattr(S, name):
            setattr(S, name, fn)
    _installed = True


def drain():
    """Returns and clears the recorded violations."""
    v = list(violations)
    del violations[:]
    return v
