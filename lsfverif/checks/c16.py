"""
C16  Service quotas are enforced at the exact boundary.

For each limit L the accept/refuse decision and the error type are observed at sizes L-2 .. L+2 (and far below/above) at every place the
limit applies: StartExecution / StartSyncExecution input, SendTaskSuccess output, Pass/Task/Map/Parallel state output (STANDARD and
EXPRESS), task reply, state machine definition (1..1048576), names (1..80, forbidden characters), and the 25000-event history bound.
Documents have a single ASCII string member, so "the length of the JSON text" has one spelling.
"""
import json, base64, copy
from lsfverif.sim.world import World, EPOCH0, ROLE, RAW
from lsfverif.gen import families as F
from lsfverif.gen.machines import worker_behaviour, FN_PREFIX

ID = "C16"
ENGINE = "simworld"
LEVEL = "exploration"
RULE = ("case = (place, size): size in {1, L-2, L-1, L, L+1, L+2, 2L} for L = 262144 (input, output, reply, callback output), 1048576 (definition), 80 (names); "
        "history: executions that loop / retry until the 25000-event bound. non-trivial = size within L+-2; distinct by (place, size)")
ASSUMPTIONS = ["the length of a state's output is measured on the engine's own serialisation (json.dumps default separators) of a single-member ASCII document",
               "history may exceed 25000 by the documented slack (a few events) before the execution is failed"]
FLOORS = {"evaluations": 120, "nontrivial": 60, "place:api-input": 10, "place:state-output": 30, "place:task-reply": 5, "place:callback-output": 5, "place:definition": 6,
          "place:name": 10, "history_bound_runs": 2, "history_events_observed": 50000}
SHARDS = {"quick": 16, "thorough": 16}
TIMEOUT = {"quick": 1800, "thorough": 7200}
TECHNIQUE = "boundary-value monitors through the real REST handlers and real executions in the simulated world"
LEVEL_TEXT = ("Each quota is probed at L-2..L+2 at each place it applies, through the real API handlers and the real engine; the history bound is hit by real looping and "
              "retrying executions. Held = the decision flipped exactly between L and L+1 everywhere, up to the listed finding.")
LEVEL_NOTE = "sizes far from the boundaries are only sampled; the decision is observed, not the implementation"
DESIGN_REF = "DESIGN.md section 6, C16"

L_DATA, L_DEF, L_NAME, L_HIST = 262144, 1048576, 80, 25000


def doc_of_len(n, fill="a"):
    """{"k": "aaa..."} whose json.dumps text has exactly n characters (n >= 9)."""
    d = {"k": fill * (n - 9)}
    assert len(text_of(d)) == n
    return d


def text_of(value):
    """THE JSON text of a value: characters written as themselves (escaping every non-ASCII character as \\uXXXX is a choice of the writer, not a
    property of the value)."""
    return json.dumps(value, ensure_ascii=False)


def sizes(L, quick=True):
    return [11, L - 2, L - 1, L, L + 1, L + 2, 2 * L]


def expect_ok(n, L):
    return n <= L


def api_input(ctx, w, n, sync, fill="a"):
    place = "api-input"
    ctx.evaluation(); ctx.count("place:" + place); ctx.count("fill:" + ("ascii" if fill == "a" else "non-ascii"))
    name = ("sx" if sync else "ex") + str(n) + ("" if fill == "a" else "w%d" % ord(fill))
    sm = w.sm_arn("express" if sync else "std")
    payload = text_of(doc_of_len(n, fill))
    if sync:
        t = w.api_task("StartSyncExecution", {"stateMachineArn": sm, "name": name, "input": payload})
        w.pump(20); w.step_hooks.append(lambda world, act: world.pump(4)); w.run(); w.pump(20)
        w.step_hooks.pop()
        code, body = t.result() if t.done() else (None, "pending")
    else:
        code, body = w.api("StartExecution", {"stateMachineArn": sm, "name": name, "input": payload})
        w.run()
    ok = expect_ok(n, L_DATA)
    case = dict(place=place, action="StartSyncExecution" if sync else "StartExecution", size=n, fill=fill)
    if abs(n - L_DATA) <= 2:
        ctx.nontrivial(case)
    if ok and code != 200:
        ctx.violation("input-within-limit-refused", dict(case, code=code, body=str(body)[:200]), None)
    if not ok and not (code == 400 and isinstance(body, dict) and body.get("__type") == "InvalidExecutionInput"):
        ctx.violation("oversize-input-not-refused-with-InvalidExecutionInput", dict(case, code=code, body=str(body)[:200]), None)


def state_output(ctx, kind, n, typ, end, fill="a"):
    """A state of the given kind whose OUTPUT text has exactly n characters."""
    place = "state-output"
    ctx.evaluation(); ctx.count("place:" + place); ctx.count("fill:" + ("ascii" if fill == "a" else "non-ascii"))
    inner = n if kind in ("Pass", "Task") else n - 2          # fan-out results are arrays of one element: [ ... ]
    d = doc_of_len(inner, fill)
    if kind == "Pass":
        st = F.P()
    elif kind == "Task":
        st = F.T("echo")
    elif kind == "Parallel":
        st = {"Type": "Parallel", "Branches": [F.chain([("B1", F.P())])]}
    else:
        st = {"Type": "Map", "ItemsPath": "$.items", "ItemProcessor": F.chain([("I1", F.P())])}
    if end:
        st["End"] = True
        asl = {"StartAt": "A", "States": {"A": st}}
    else:
        st["Next"] = "Z"
        asl = {"StartAt": "A", "States": {"A": st, "Z": {"Type": "Pass", "Result": "small", "End": True}}}
    data = d if kind != "Map" else {"items": [d]}
    if kind == "Map":
        # the Map's output replaces the input: [d]
        pass
    case = dict(place=place, kind=kind, size=n, type=typ, end=end, fill=fill)
    if abs(n - L_DATA) <= 2:
        ctx.nontrivial(case)
    with World(seed=ctx.seed) as w:
        sm = w.create_machine("m", asl, typ=typ)
        # (the worker writes its reply with the characters as themselves: an escaped spelling would be a longer text)
        w.add_worker("echo", (lambda wk, req: RAW(text_of(req["payload"]).encode("utf-8"))) if fill != "a" else worker_behaviour({"echo": ["echo"]}))
        e = w.start_event(sm, "e", data)
        w.run()
        st_, out, err, t = w.outcome(e)
        ok = expect_ok(n, L_DATA)
        if ok and st_ != "SUCCEEDED":
            ctx.violation("state-output-within-limit-failed", dict(case, status=st_, error=err), None)
        if not ok and not (st_ == "FAILED" and err == "States.DataLimitExceeded"):
            ctx.violation("oversize-state-output-not-failed-with-DataLimitExceeded", dict(case, status=st_, error=err, output_len=len(text_of(out)) if out is not None else None),
                          "terminal-state-no-datalimit" if end else None)


def task_reply(ctx, n, fill="a"):
    place = "task-reply"
    ctx.evaluation(); ctx.count("place:" + place); ctx.count("fill:" + ("ascii" if fill == "a" else "non-ascii"))
    body = text_of(doc_of_len(n, fill)).encode("utf-8")
    case = dict(place=place, size=n, fill=fill, bytes=len(body))
    if abs(n - L_DATA) <= 2:
        ctx.nontrivial(case)
    asl = {"StartAt": "A", "States": {"A": F.T("big", ResultPath="$.r", OutputPath="$.small", Next="Z"), "Z": {"Type": "Pass", "End": True}}}
    with World(seed=ctx.seed) as w:
        sm = w.create_machine("m", asl)
        w.add_worker("big", lambda wk, req: RAW(body))
        e = w.start_event(sm, "e", {"small": 1})
        w.run()
        st_, out, err, t = w.outcome(e)
        ok = expect_ok(n, L_DATA)
        if ok and st_ != "SUCCEEDED":
            ctx.violation("task-reply-within-limit-failed", dict(case, status=st_, error=err), None)
        if not ok and not (st_ == "FAILED" and err == "States.DataLimitExceeded"):
            ctx.violation("oversize-task-reply-not-failed-with-DataLimitExceeded", dict(case, status=st_, error=err), None)


def callback_output(ctx, n, fill="a"):
    place = "callback-output"
    ctx.evaluation(); ctx.count("place:" + place); ctx.count("fill:" + ("ascii" if fill == "a" else "non-ascii"))
    case = dict(place=place, size=n, fill=fill)
    if abs(n - L_DATA) <= 2:
        ctx.nontrivial(case)
    asl = {"StartAt": "A", "States": {"A": {"Type": "Task", "Resource": "arn:aws:states:local::rpcmessage:invoke.waitForTaskToken",
                                            "Parameters": {"FunctionName": FN_PREFIX + "cb", "Payload": {"token.$": "$$.Task.Token"}},
                                            "ResultPath": "$.r", "OutputPath": "$.small", "Next": "Z"}, "Z": {"Type": "Pass", "End": True}}}
    with World(seed=ctx.seed) as w:
        sm = w.create_machine("m", asl)
        tokens = []
        from lsfverif.sim.world import NOREPLY
        w.add_worker("cb", lambda wk, req: (tokens.append(req["payload"]["token"]), NOREPLY)[1])
        e = w.start_event(sm, "e", {"small": 1})
        w.run(until=lambda world: bool(tokens))
        w.drain_instantaneous()
        if not tokens:
            ctx.inconclusive("callback task never reached the worker")
            return
        code, body = w.api("SendTaskSuccess", {"taskToken": tokens[0], "output": text_of(doc_of_len(n, fill))})
        w.run()
        st_, out, err, t = w.outcome(e)
        ok = expect_ok(n, L_DATA)
        if ok and not (code == 200 and st_ == "SUCCEEDED"):
            ctx.violation("callback-output-within-limit-refused", dict(case, code=code, body=str(body)[:200], status=st_, error=err), None)
        if not ok and not (code == 400 and isinstance(body, dict) and body.get("__type") == "InvalidOutput"):
            ctx.violation("oversize-callback-output-not-refused-with-InvalidOutput", dict(case, code=code, body=str(body)[:200], status=st_), None)


def definition_size(ctx, w, n, k):
    place = "definition"
    ctx.evaluation(); ctx.count("place:" + place)
    base = {"Comment": "", "StartAt": "A", "States": {"A": {"Type": "Pass", "End": True}}}
    pad = n - len(json.dumps(base))
    case = dict(place=place, size=n)
    if n == 0:
        text = ""
    else:
        base["Comment"] = "c" * pad
        text = json.dumps(base)
        assert len(text) == n
    if abs(n - L_DEF) <= 2 or n <= 1:
        ctx.nontrivial(case)
    code, body = w.api("CreateStateMachine", {"name": "d%d" % k, "definition": text, "roleArn": ROLE})
    ok = 1 <= n <= L_DEF
    if ok and code != 200:
        ctx.violation("definition-within-limit-refused", dict(case, code=code, body=str(body)[:200]), None)
    if not ok and not (code == 400 and isinstance(body, dict) and body.get("__type") in ("InvalidDefinition", "MissingRequiredParameter")):
        ctx.violation("definition-outside-limit-not-refused", dict(case, code=code, body=str(body)[:200]), None)
    if code == 200:
        w.api("DeleteStateMachine", {"stateMachineArn": body["stateMachineArn"]})


def name_size(ctx, w, name, k, front="asyncio"):
    place = "name"
    ctx.evaluation(); ctx.count("place:" + place)
    bad = set(" <>{}[]?*\"#%\\^|~`$&,;:/")
    ok = 1 <= len(name) <= L_NAME and not (set(name) & bad) and not any(ord(c) < 32 or 127 <= ord(c) <= 159 for c in name)
    case = dict(place=place, name=name if len(name) < 30 else name[:10] + "...(%d)..." % len(name) + name[-3:], front_end=front)
    ctx.count("name_front_end:" + front)
    if abs(len(name) - L_NAME) <= 2 or (set(name) & bad):
        ctx.nontrivial(case)
    d = json.dumps({"StartAt": "A", "States": {"A": {"Type": "Pass", "End": True}}})
    for action, params in (("CreateStateMachine", {"name": name, "definition": d, "roleArn": ROLE}),
                           ("StartExecution", {"stateMachineArn": w.sm_arn("std"), "name": name, "input": "{}"})):
        code, body = w.api(action, params, flavour=front)
        if ok and code != 200:
            ctx.violation("valid-name-refused", dict(case, action=action, code=code, body=str(body)[:200]), None)
        if not ok and not (code == 400 and isinstance(body, dict) and body.get("__type") == "InvalidName"):
            ctx.violation("invalid-name-not-refused-with-InvalidName", dict(case, action=action, code=code, body=str(body)[:200]), None)
        if code == 200 and action == "CreateStateMachine":
            w.api("DeleteStateMachine", {"stateMachineArn": body["stateMachineArn"]})
    w.run()


def history_bound(ctx, variant):
    """An execution that would grow its history without bound must be failed soon after 25000 events."""
    ctx.evaluation(); ctx.count("history_bound_runs")
    if variant == "loop":
        asl = {"StartAt": "Inc", "States": {"Inc": {"Type": "Pass", "Parameters": {"i.$": "States.MathAdd($.i, 1)"}, "Next": "Ch"},
                                            "Ch": {"Type": "Choice", "Choices": [{"Variable": "$.i", "NumericLessThan": 20000, "Next": "Inc"}], "Default": "Done"},
                                            "Done": {"Type": "Succeed"}}}
        funcs = {}
    elif variant == "catch-all-loop":
        # an error handler that takes every error and goes round again: reaching the bound is not an error of the state that a States.ALL handler could take
        asl = {"StartAt": "A", "States": {"A": F.T("boom", Catch=[{"ErrorEquals": ["States.ALL"], "Next": "Again"}], Next="Done"), "Again": {"Type": "Pass", "Result": {"i": 0}, "Next": "A"},
                                          "Done": {"Type": "Succeed"}}}
        funcs = {"boom": ["fail", "Boom"]}
    else:
        names = ["Boom"] if variant == "retry" else ["States.ALL"]
        asl = {"StartAt": "A", "States": {"A": F.T("boom", Retry=[{"ErrorEquals": names, "IntervalSeconds": 0, "MaxAttempts": 99999999, "BackoffRate": 1.0}], Next="Done"),
                                          "Done": {"Type": "Succeed"}}}
        funcs = {"boom": ["fail", "Boom"]}
    case = dict(place="history", variant=variant)
    ctx.nontrivial(case)
    with World(seed=ctx.seed, execution_ttl=10 ** 7) as w:
        sm = w.create_machine("m", asl)
        beh = worker_behaviour(funcs)
        for fn in funcs:
            w.add_worker(fn, beh)
        e = w.start_event(sm, "e", {"i": 0})
        eng0 = next(iter(w.engines.values()))
        # stop as soon as the bound (plus generous slack) has clearly been passed: an unbounded run is the violation
        try:
            w.run(max_steps=400000, until=lambda world: len(eng0.se.execution_history.get(e) or []) > L_HIST + 300)
        except RuntimeError:
            # neither failed nor growing: the execution goes round at the bound (step budget: six times what reaching the bound takes)
            n = len(eng0.se.execution_history.get(e) or [])
            ctx.violation("execution-at-the-history-bound-is-not-failed", dict(case, status=w.outcome(e)[0], history_length=n, steps=400000), None)
            return
        st_, out, err, t = w.outcome(e)
        eng = next(iter(w.engines.values()))
        n = len(eng.se.execution_history.get(e) or [])
        ctx.count("history_events_observed", n)
        ctx.sample(dict(case, status=st_, error=err, history_length=n))
        if st_ != "FAILED" or n > L_HIST + 50:
            ctx.violation("history-grew-past-the-bound-without-the-execution-being-failed", dict(case, status=st_, error=err, history_length=n), None)
        elif n <= L_HIST:
            ctx.violation("execution-failed-before-the-history-bound", dict(case, status=st_, error=err, history_length=n), None)


def run(ctx):
    i = 0
    w = None
    try:
        def world():
            nonlocal w
            if w is None:
                w = World(seed=ctx.seed)
                simple = {"StartAt": "A", "States": {"A": {"Type": "Pass", "Result": 1, "End": True}}}
                w.create_machine("std", simple)
                w.create_machine("express", simple, typ="EXPRESS")
            return w
        for n in sizes(L_DATA):
            for sync in (False, True):
                i += 1
                if ctx.mine(i):
                    api_input(ctx, world(), n, sync)
        for n in [0, 80, 5000, L_DEF - 2, L_DEF - 1, L_DEF, L_DEF + 1, L_DEF + 2]:
            i += 1
            if ctx.mine(i):
                definition_size(ctx, world(), n, i)
        names = ["x" * k for k in (1, 2, 78, 79, 80, 81, 82, 200)] + [""] + ["a%sb" % c for c in " <>{}[]?*\"#%\\^|~`$&,;:/"] + ["a\nb", "a\tb", "ok-name_1.x", "x" * 79 + ":"]
        # a forbidden or control character at the first, a middle and the LAST position (also as the 80th and the 81st character)
        for c in list(" <>{}[]?*\"#%\\^|~`$&,;:/") + ["\n", "\r", "\t", "\x00", "\x1f", "\x7f", "\x85", "\x9f"]:
            names += [c + "ab", "ab" + c, "x" * 79 + c, "x" * 80 + c]
        for front in ("asyncio", "blocking"):
            for name in names:
                i += 1
                if ctx.mine(i):
                    name_size(ctx, world(), name, i, front)
    finally:
        if w is not None:
            w.close()
    for kind in ("Pass", "Task", "Parallel", "Map"):
        for n in sizes(L_DATA):
            for typ in ("STANDARD", "EXPRESS"):
                for end in (False, True):
                    if end and n not in (L_DATA, L_DATA + 1):
                        continue
                    if typ == "EXPRESS" and n not in (L_DATA, L_DATA + 1, L_DATA + 2):
                        continue
                    i += 1
                    if ctx.mine(i):
                        state_output(ctx, kind, n, typ, end)
    for n in sizes(L_DATA):
        i += 1
        if ctx.mine(i):
            task_reply(ctx, n)
        i += 1
        if ctx.mine(i):
            callback_output(ctx, n)
    # the same places with texts made of non-ASCII characters: the limit counts the characters of the text, not the bytes of an encoding of it nor
    # the characters of an escaped spelling
    for fill in ("\u00e9", "\u20ac"):
        for n in (60000, 140000, L_DATA - 1, L_DATA, L_DATA + 1):
            for kind, end in (("Pass", False), ("Task", False), ("Map", False)):
                i += 1
                if ctx.mine(i):
                    state_output(ctx, kind, n, "STANDARD", end, fill)
            i += 1
            if ctx.mine(i):
                task_reply(ctx, n, fill)
            i += 1
            if ctx.mine(i):
                callback_output(ctx, n, fill)
            i += 1
            if ctx.mine(i):
                with World(seed=ctx.seed) as wq:
                    wq.create_machine("std", {"StartAt": "A", "States": {"A": {"Type": "Pass", "Result": 1, "End": True}}})
                    api_input(ctx, wq, n, False, fill)
    for variant in ("loop", "retry", "retry-all", "catch-all-loop"):
        i += 1
        if ctx.mine(i):
            history_bound(ctx, variant)


def witnesses(ctx):
    sub = type(ctx)(ctx.check_id, ctx.tier, ctx.seed)
    state_output(sub, "Pass", L_DATA + 1, "STANDARD", True)
    hit = [v for v in sub.violations if v["mechanism"] == "terminal-state-no-datalimit"]
    ctx.witness("terminal-state-no-datalimit", bool(hit), hit[0]["witness"] if hit else None)


def replay(ctx, doc):
    print(json.dumps(doc["witness"], indent=1)[:2000])
    w = doc["witness"]
    if w.get("place") == "state-output":
        state_output(ctx, w["kind"], w["size"], w["type"], w["end"], w.get("fill", "a"))
    elif w.get("place") == "task-reply":
        task_reply(ctx, w["size"], w.get("fill", "a"))
    elif w.get("place") == "callback-output":
        callback_output(ctx, w["size"], w.get("fill", "a"))
    elif w.get("place") == "history":
        history_bound(ctx, w["variant"])
