"""Shared exploration driver for the schedule-quantified checks (C02, C03, C05, C06, C09, C11)."""
import random, copy
from lsfverif.mon import scenario as S
from lsfverif.sim.world import make_random, canonical, dfs_schedules, Prefix
from lsfverif.core import stable_hash


def schedule_hash(run):
    return stable_hash([list(l) for l in run.trace])


def run_schedules(ctx, scn, meta, judge, n_random, seed_base, monitors=("notes", "records", "acks"), record_every=1, tag=""):
    """canonical + n_random seeded random schedules of one scenario; judge(ctx, run, meta, sched_name)."""
    for s in range(n_random + 1):
        if s == 0:
            pol, name = None, "canonical"
        else:
            r = random.Random(stable_hash([seed_base, s]))
            w8 = r.choice([1.0, 1.0, 4.0, 0.25])
            pol, name = (lambda w, r=r, w8=w8: make_random(r, prompt_timer_weight=w8)), "random%d" % s
        run = S.execute(scn, policy=pol, seed=ctx.seed, monitors=monitors, record_every=record_every)
        try:
            observe(ctx, run)
            ctx.distinct("schedules", [scn_key(scn), schedule_hash(run)])
            judge(ctx, run, meta, name)
        finally:
            S.close(run)


def run_dfs(ctx, scn, meta, judge, max_runs, monitors=("notes", "records", "acks")):
    """Exhaustive enumeration of schedules by re-execution (stateless DFS over choice points)."""
    def one(pol):
        run = S.execute(scn, policy=lambda w: pol, seed=ctx.seed, monitors=monitors)
        try:
            observe(ctx, run)
            ctx.distinct("schedules", [scn_key(scn), schedule_hash(run)])
            ctx.count("dfs_runs")
            judge(ctx, run, meta, "dfs")
        finally:
            S.close(run)
        return None
    n = 0
    exhausted = True
    for _res, pts in dfs_schedules(one, max_runs=max_runs):
        n += 1
    if n >= max_runs:
        exhausted = False
    ctx.count("dfs_scenarios_exhausted" if exhausted else "dfs_scenarios_truncated")
    return exhausted


def scn_key(scn):
    return stable_hash(dict(m=scn["machines"], s=scn["starts"], c=scn.get("config", {})))


def observe(ctx, run):
    ctx.evaluation()
    for k, v in run.seen.items():
        ctx.count("obs:" + k, v)
    if run.error:
        ctx.count("runs_with_harness_or_engine_exception")


def judge_rules(ctx, run, meta, sched, prefixes, classify, extra=None, kind_prefix=""):
    """Turn the monitor violations whose rule starts with one of `prefixes` into check violations."""
    n = 0
    for v in run.violations:
        if not any(v["rule"].startswith(p) for p in prefixes):
            continue
        n += 1
        mech = classify(run, v) if classify else None
        ctx.violation(kind_prefix + v["rule"], S.witness_of(run, dict(violation=v, family=meta.get("family"), schedule_name=sched, meta=meta)), mech)
    if run.error:
        ctx.violation(kind_prefix + "exception-escaped-the-engine", S.witness_of(run, dict(family=meta.get("family"), schedule_name=sched)), None)
    return n
