"""
Scenario runner: builds a simulated world from a JSON-able scenario, attaches the monitors, drives it
with a scheduling policy and returns everything that was observed.

scenario = {
  "machines": {name: {"asl": {...}, "type": "STANDARD"|"EXPRESS"}},
  "funcs":    {function: behaviour-as-data},                 (see gen.machines.task_oracle)
  "starts":   [{"machine": name, "name": exec name, "input": json, "via": "event"|"rest"|"sync"}],
  "config":   {"tz": "UTC", "store": "json"|"redis", "instances": ["i1"], "queue_type": "classic",
               "execution_ttl": 600, "transport": "asyncio"},
}
"""
import json, copy, collections
from lsfverif.sim.world import World, canonical, make_random, Replay, EPOCH0, EngineCrash
from lsfverif.gen.machines import worker_behaviour
from lsfverif.mon.monitors import NotificationMonitor, RecordMonitor, AckMonitor, TERMINAL


class Run(object):
    pass


def execute(scn, policy=None, seed=0, labels=None, monitors=("notes", "records", "acks"), hooks=None,
            settle=True, max_steps=20000, record_every=1, before_run=None):
    """Run one scenario.  policy: callable(world)->policy function, or None for canonical.
    labels: recorded schedule to replay.  Returns a Run."""
    cfg = dict(scn.get("config", {}))
    w = World(seed=seed, instances=tuple(cfg.get("instances", ("i1",))), store=cfg.get("store", "json"),
              queue_type=cfg.get("queue_type", "classic"), tz=cfg.get("tz", "UTC"),
              execution_ttl=cfg.get("execution_ttl", 600), transport=cfg.get("transport", "asyncio"))
    run = Run()
    run.world, run.scn, run.violations, run.error = w, scn, [], None
    try:
        express = set()
        arns = {}
        for name, m in scn["machines"].items():
            arn = w.create_machine(name, copy.deepcopy(m["asl"]), typ=m.get("type", "STANDARD"), logging=m.get("logging"))
            arns[name] = arn
        notes = NotificationMonitor(w) if "notes" in monitors else None
        run.notes = notes
        run.records = RecordMonitor(w, notes, every=record_every) if "records" in monitors and notes else None
        run.acks = AckMonitor(w, notes) if "acks" in monitors and notes else None
        beh = worker_behaviour(scn.get("funcs", {}))
        for fn in scn.get("funcs", {}):
            w.add_worker(fn, beh)
        run.execs = []
        run.api = []
        tasks = []
        for s in scn["starts"]:
            via = s.get("via", "event")
            arn = arns[s["machine"]]
            exarn = arn.replace(":stateMachine:", ":execution:") + ":" + s["name"]
            if scn["machines"][s["machine"]].get("type") == "EXPRESS":
                express.add(exarn)
            if via == "event":
                w.start_event(arn, s["name"], copy.deepcopy(s["input"]))
            elif via == "minimal":
                w.start_minimal_event(arn, s["name"], copy.deepcopy(s["input"]))
            elif via == "event-redelivered":
                # the start event was taken from the shared queue by a consumer that died before doing anything with it: the broker hands it out again,
                # flagged redelivered, and this engine is the first to handle it
                w.start_event(arn, s["name"], copy.deepcopy(s["input"]))
                for q in w.broker.queues.values():
                    for m in q.messages:
                        if m.props.message_id == "start-" + s["name"]:
                            m.redelivered = True
            elif via == "rest":
                r = w.api("StartExecution", {"stateMachineArn": arn, "name": s["name"], "input": json.dumps(s["input"])}, iid=s.get("iid"))
                run.api.append(("StartExecution", r))
            elif via == "sync":
                t = w.api_task("StartSyncExecution", {"stateMachineArn": arn, "name": s["name"], "input": json.dumps(s["input"])}, iid=s.get("iid"))
                w.pump(30)
                tasks.append((exarn, t))
            run.execs.append(exarn)
        if run.records:
            run.records.express = express
        if notes:
            notes.express = express
        for h in hooks or ():
            h(run)
        if before_run:
            before_run(run)
        pol = Replay(labels) if labels is not None else (policy(w) if policy else canonical)
        if tasks:
            w.step_hooks.append(lambda world, act: world.pump(6))
        run.steps = w.run(pol, max_steps=max_steps)
        run.sync_results = {}
        for exarn, t in tasks:
            w.pump(30)
            run.sync_results[exarn] = t.result() if t.done() else None
        run.quiescent_at = w.clock.now
        if settle:
            settle_world(run)
        run.trace = list(w.trace)
        collect(run)
    except Exception as e:       # harness or engine blew up outside the world's own handling
        import traceback
        tb = traceback.format_exc()
        run.error = "%s: %s\n%s" % (type(e).__name__, e, tb if len(tb) <= 5000 else tb[:2500] + "\n  [...]\n" + tb[-2500:])
        run.trace = list(w.trace)
        collect(run)
    return run


def settle_world(run):
    """Drain clause and bounded progress: once quiescent, (1) check the engine holds nothing for
    terminal-only worlds, (2) let the orphan-retention window pass, (3) for executions still RUNNING let
    virtual time pass their time-out plus the 61 s back-stop period and see whether they terminate."""
    w, notes, acks = run.world, run.notes, run.acks
    if notes is None:
        return
    run.running_at_quiescence = notes.running()
    w.advance(w.orphan_retention_ms / 1000.0 + 2)
    w.run(max_steps=5000)
    if acks and not notes.running():
        acks.drain("quiescence+orphan-retention")
    run.never_terminated = []
    if notes.running():
        w.advance(w.execution_ttl + 122)
        w.run(max_steps=5000)
        w.advance(w.orphan_retention_ms / 1000.0 + 2)
        w.run(max_steps=5000)
        run.never_terminated = notes.running()
        if acks:
            acks.drain("after-backstop")
    else:
        # let the back-stop period pass as well: nothing may happen to a finished world
        n_ops = len(w.broker.oplog)
        n_notes = len(w.notifications)
        w.advance(w.execution_ttl + 122)
        w.run(max_steps=5000)
        run.late_ops = [r for r in w.broker.oplog[n_ops:] if (r["conn"] or "").startswith("engine:")]
        run.late_notifications = w.notifications[n_notes:]
        if acks:
            acks.drain("after-backstop-period")


def collect(run):
    w = run.world
    for name in ("notes", "records", "acks"):
        m = getattr(run, name, None)
        if m:
            for v in m.violations:
                v = dict(v); v["monitor"] = name
                run.violations.append(v)
    run.outcomes = {a: w.outcome(a) for a in getattr(run, "execs", [])}
    run.status_seq = {a: [s for s, _ in h] for a, h in run.notes.status.items()} if getattr(run, "notes", None) else {}
    run.seen = collections.Counter()
    for name in ("notes", "records", "acks"):
        m = getattr(run, name, None)
        if m:
            run.seen.update(m.seen)
    run.seen["steps"] = len(w.steps)
    run.seen["broker_ops"] = len(w.broker.oplog)
    run.requests = {fn: [dict(t=r["t"] - EPOCH0, cid=r["cid"], payload=r["payload"], n=r["n"], step=r["step"]) for r in wk.requests]
                    for fn, wk in w.workers.items()}
    run.histories = {}
    run.records_final = {}
    for iid, e in w.engines.items():
        for a in getattr(run, "execs", []):
            h = e.se.execution_history.get(a)
            if h is not None and a not in run.histories:
                run.histories[a] = [dict(x) for x in h]
            r = e.se.executions.get(a)
            if r is not None and a not in run.records_final:
                run.records_final[a] = dict(r)


def close(run):
    try:
        run.world.close()
    except Exception:
        pass


def witness_of(run, extra=None, max_trace=400):
    """JSON-able replay document for one run."""
    w = run.world
    d = dict(scenario=run.scn, seed=w.seed, schedule=[list(l) for l in run.trace[:max_trace]],
             schedule_len=len(run.trace), error=run.error,
             notifications=[(round(n["t"] - EPOCH0, 3), n["body"]["detail"]["executionArn"].rsplit(":", 1)[1], n["body"]["detail"]["status"],
                             n["body"]["detail"].get("error")) for n in w.notifications][:40],
             violations=run.violations[:12])
    if extra:
        d.update(extra)
    return d
