"""
C13  Payload templates and intrinsic functions evaluate as specified, fail cleanly.

Oracles: reference template evaluator + independent intrinsic tokenizer/evaluator (ref/intrinsics.py) run beside the real
evaluate_payload_template; runtime contracts (template, input, context not mutated; result a finite JSON tree); the same
corpus evaluated in sub-processes under different PYTHONHASHSEEDs (results must be identical); Pass states using the
template through the real engine (error names).
"""
import os, sys, json, copy, subprocess, hashlib
from lsfverif.ref import asl as R
from lsfverif.ref import intrinsics as I
from lsfverif.mon import contracts
from lsfverif.sim import mini
from lsfverif.core import ROOT

ID = "C13"
ENGINE = "mini"
LEVEL = "exploration"
RULE = ("case = (intrinsic expression | payload template, input); expressions from a grammar over all 18 functions, 0..k+1 arguments of every "
        "JSON type, paths, nesting 0..3, strings over an alphabet with , ' \\ ( ) { } [ ] ^ - ; templates of depth<=3 (thorough 5) mixing literal and "
        "'.$' members. non-trivial = nesting>=1 or a hostile character or a wrong-arity/ill-typed call; distinct by expression/template text")
ASSUMPTIONS = ["unspecified and skipped: States.Format of non-string/non-integer arguments, MathRandom values, "
               "Base64Decode of invalid text, numeric literal spellings outside JSON, escapes other than \\' \\\\ \\{ \\}",
               "ArrayUnique order and StringSplit empty members are matched as patterns (any order / modulo empty strings); hash-seed independence is decided by the separate sub-process sweep"]
FLOORS = {"selector_cases": 300, "evaluations": 6000, "expressions_compared": 4000, "templates_compared": 500, "state_level_compared": 200, "nontrivial": 2500,
          "contract_evaluations": 5000, "hashseed_runs": 3, "ref_failures_expected": 500, "ref_values_expected": 1500}
SHARDS = {"quick": 8, "thorough": 16}
TECHNIQUE = "reference-evaluator monitor + runtime contracts on evaluate_payload_template; PYTHONHASHSEED sweep in sub-processes"
LEVEL_TEXT = ("Generated intrinsic expressions and payload templates are evaluated by the real function and by an independent evaluator; values, "
              "failure classes and argument non-mutation are compared on every case, the corpus is re-evaluated under 4 hash seeds, and error names "
              "are checked through real Pass states. Held = agreement (up to the listed findings) on everything generated.")
LEVEL_NOTE = "trusts the ~300-line reference tokenizer/evaluator; cases the specification leaves open are skipped and counted"
DESIGN_REF = "DESIGN.md section 6, C13"

DATA = {"s": "x,y", "n": 3, "arr": [3, 1, 3, 2], "sa": ["b", "a", "b"], "nest": [[1], [1], [2]], "o": {"k": "v"}, "o2": {"k": "w", "z": 1},
        "t": True, "f": 1.5, "nul": None, "e": [], "mixed": [1, "1", 1.0, True, None, None], "b64": "aGVsbG8=",
        "flags": [True, 1, False, 0, True, 0, "1", "true"], "jt": ["[2]", [2], "{\"a\": 1}", {"a": 1}, "null", None, [2]]}
CTX = {"Execution": {"Id": "E", "Input": {"q": 1}}, "State": {"Name": "S"}}
STR_ALPHA = ["a", "b", " ", ",", "(", ")", "{}", "\\{", "\\}", "\\'", "\\\\", "[", "]", "^", "-", "x", "{", "}", "{0}", ".", "$", "ab"]
PATHS = ["$.s", "$.n", "$.arr", "$.sa", "$.nest", "$.o", "$.o2", "$.t", "$.f", "$.nul", "$.e", "$.mixed", "$.b64", "$.missing", "$$.Execution.Id", "$.arr[1]", "$.flags", "$.jt"]
FUNCS = {k: v for k, v in I.ARITY.items()}


# ----------------------------------------------------------------------------- generator (AST -> text)
def gen_str(r, maxlen=4):
    return ("str", [r.choice(STR_ALPHA) for _ in range(r.randint(0, maxlen))])


def gen_arg(r, depth, for_fn=None, pos=0):
    c = r.random()
    # type-directed most of the time so that well-formed calls are common
    if for_fn and c < 0.6:
        want = {"Format": ["str", "strnum"], "StringToJson": ["jsonstr"], "ArrayPartition": ["arr", "int"], "ArrayContains": ["arr", "any"],
                "ArrayRange": ["int", "int", "int"], "ArrayGetItem": ["arr", "int"], "ArrayLength": ["arr"], "ArrayUnique": ["arr"],
                "Base64Encode": ["str"], "Base64Decode": ["b64"], "Hash": ["str", "alg"], "JsonMerge": ["obj", "obj", "false"],
                "MathAdd": ["int", "int"], "StringSplit": ["str", "sep"], "MathRandom": ["int", "int", "int"]}.get(for_fn, [])
        kind = want[min(pos, len(want) - 1)] if want else "any"
        if kind == "str":
            return gen_str(r)
        if kind == "strnum":
            return gen_str(r) if r.random() < 0.6 else ("lit", r.choice(["1", "42", "-7"])) if r.random() < 0.5 else ("path", r.choice(["$.s", "$.n"]))
        if kind == "jsonstr":
            return ("str", [r.choice(["\\{\"a\":1\\}", "[1,2]", "1", "\"s\"", "{bad", "null", "true"])])
        if kind == "arr":
            return ("path", r.choice(["$.arr", "$.sa", "$.nest", "$.e", "$.mixed", "$.flags", "$.jt"])) if r.random() < 0.7 or depth <= 0 else \
                ("call", "Array", [gen_arg(r, depth - 1) for _ in range(r.randint(0, 3))])
        if kind == "int":
            return ("lit", r.choice(["0", "1", "2", "3", "-1", "7", "1000", "5"])) if r.random() < 0.8 else ("path", "$.n")
        if kind == "b64":
            return ("path", "$.b64") if r.random() < 0.5 else ("str", [r.choice(["aGk=", "eA==", "!!", "a"])])
        if kind == "alg":
            return ("str", [r.choice(["MD5", "SHA-1", "SHA-256", "SHA-384", "SHA-512", "SHA-3", "md5"])])
        if kind == "obj":
            return ("path", r.choice(["$.o", "$.o2"]))
        if kind == "false":
            return ("lit", "false")
        if kind == "sep":
            return ("str", [r.choice([",", ", ", "-", "^", ".", "]", "\\\\", "a-z", "[", "|", "xy"])])
    if depth > 0 and c < 0.75:
        return gen_call(r, depth - 1)
    c = r.random()
    if c < 0.35:
        return gen_str(r)
    if c < 0.65:
        return ("path", r.choice(PATHS))
    if c < 0.9:
        return ("lit", r.choice(["0", "1", "2", "-1", "7", "1.5", "1000", "2.0"]))
    # (the second half are ill-formed argument tokens, some of which happen to be JSON: all of them must be refused)
    return ("lit", r.choice(["null", "true", "false", "f12", "1e3", '"abc"', "[]", "[7]", "{}", '{"k":1}', "abc", "1.2.3", "1_000", "nan", "True", "0x10"]))


def gen_call(r, depth):
    name = r.choice(list(FUNCS))
    lo, hi = FUNCS[name]
    hi2 = hi if hi is not None else 3
    k = r.randint(lo, hi2) if r.random() < 0.9 else r.randint(0, hi2 + 1)
    return ("call", name, [gen_arg(r, depth, name, i) for i in range(k)])


def render(a):
    if a[0] == "str":
        return "'" + "".join(a[1]) + "'"
    if a[0] == "call":
        return "States.%s(%s)" % (a[1], ", ".join(render(x) for x in a[2]))
    return a[1]


def nest_depth(a):
    if a[0] != "call":
        return 0
    return 1 + max([nest_depth(x) for x in a[2]] or [0])


def strings_of(a):
    if a[0] == "str":
        yield "".join(x if isinstance(x, str) else ("\\" + x[1] if x[0] == "esc" else x[1]) for x in a[1])
    elif a[0] == "call":
        for x in a[2]:
            yield from strings_of(x)


def calls_of(a):
    if a[0] == "call":
        yield a
        for x in a[2]:
            yield from calls_of(x)


def features(a):
    """Structural features of the expression that select a listed finding's predicate."""
    f = []
    strs = list(strings_of(a))
    if nest_depth(a) >= 3:
        f.append("intrinsic-nested-depth>=2")
    if any("(" in s or ")" in s for s in strs):
        f.append("intrinsic-paren-in-string-arg")
    if any("\\'" in s or "\\\\" in s for s in strs):
        f.append("intrinsic-escaped-apostrophe-or-backslash")
    for c in calls_of(a):
        if c[1] == "Format":
            fs = list(strings_of(c[2][0])) if c[2] else []
            if any("\\{" in s or "\\}" in s for s in fs) or any(_non_plain_braces(s) for s in fs):
                f.append("format-python-str-format")
        if c[1] in ("MathAdd", "ArrayPartition", "ArrayRange", "ArrayGetItem", "MathRandom") and any(isinstance(_ref_value(x), bool) for x in c[2]):
            f.append("intrinsic-bool-as-int")       # a boolean where an integer is required
        if c[1] == "JsonMerge" and len(c[2]) == 3 and I.is_int(_ref_value(c[2][2])) and _ref_value(c[2][2]) == 0:
            f.append("intrinsic-bool-as-int")       # ... and the integer 0 where the boolean false is required
        if c[1] == "ArrayContains" and len(c[2]) == 2 and _bool_number_confusion(_ref_value(c[2][0]), _ref_value(c[2][1])):
            f.append("arraycontains-python-equality")
        if c[1] == "ArrayUnique":
            f.append("arrayunique-set")
        if c[1] == "StringSplit":
            f.append("stringsplit-regex-metachar")
        if c[1] == "JsonMerge":
            f.append("jsonmerge-non-object")
        if c[1] == "StringToJson":
            f.append("stringtojson-lenient")
        if c[1] in ("ArrayPartition", "ArrayRange", "ArrayGetItem", "MathAdd") and any(x[0] == "lit" and "." in x[1] for x in c[2]):
            f.append("intrinsic-float-as-int")
    return f


_NOVALUE = object()


def _ref_value(ast):
    """The reference's value of one argument (or _NOVALUE when it fails / is unspecified)."""
    try:
        v = I.ev(_to_ref_ast(ast), DATA, CTX)
        return str(v) if isinstance(v, I.FmtStr) else v
    except Exception:
        return _NOVALUE


def _to_ref_ast(a):
    if a[0] == "str":
        if a[1] and not isinstance(a[1][0], str):
            return a
        return I.parse_arg(render(a), 0)[0]
    if a[0] == "call":
        return ("call", a[1], [_to_ref_ast(x) for x in a[2]])
    return a


def _json_equal(u, v):
    if isinstance(u, bool) or isinstance(v, bool):
        return isinstance(u, bool) and isinstance(v, bool) and u == v
    if isinstance(u, list) and isinstance(v, list):
        return len(u) == len(v) and all(_json_equal(a, b) for a, b in zip(u, v))
    if isinstance(u, dict) and isinstance(v, dict):
        return set(u) == set(v) and all(_json_equal(u[k], v[k]) for k in u)
    if R.is_num(u) and R.is_num(v):
        return u == v
    return type(u) == type(v) and u == v


def _bool_number_confusion(hay, needle):
    """Python's == equates True with 1 and False with 0, at any depth of the compared values: an element that is equal to the needle for Python and
    is not the same JSON value"""
    if not isinstance(hay, list):
        return False
    try:
        return any(x == needle and not _json_equal(x, needle) for x in hay)
    except Exception:
        return False


def _non_plain_braces(s):
    t = s.replace("\\{", "").replace("\\}", "").replace("{}", "")
    return "{" in t or "}" in t


# ----------------------------------------------------------------------------- comparisons
def engine_eval(expr, data=DATA, ctx=CTX):
    from asl_workflow_engine.state_engine_paths import evaluate_payload_template
    from asl_workflow_engine.asl_exceptions import IntrinsicFailure, PathMatchFailure, ParameterPathFailure
    try:
        return ("val", evaluate_payload_template(copy.deepcopy(data), copy.deepcopy(ctx), {"r.$": expr})["r"])
    except IntrinsicFailure:
        return ("IntrinsicFailure",)
    except (PathMatchFailure, ParameterPathFailure):
        return ("PathFailure",)
    except RecursionError:
        return ("EXC", "RecursionError")
    except Exception as e:
        return ("EXC", type(e).__name__)


def ref_eval(expr, data=DATA, ctx=CTX):
    try:
        return ("val", I.evaluate(expr, data, ctx))
    except I.IFail:
        return ("IntrinsicFailure",)
    except R.StateError:
        return ("PathFailure",)


def compare_expr(ctx, ast, expr=None, tag="gen"):
    expr = expr if expr is not None else render(ast)
    ctx.evaluation()
    try:
        exp = ref_eval(expr)
    except (I.Unspec, R.Unspecified):
        ctx.count("unspecified")
        # the value is not determined, but "never an arbitrary exception" still is
        got = engine_eval(expr)
        ctx.count("unspecified_checked_for_arbitrary_exceptions")
        if got[0] == "EXC":
            feats = features(ast) if ast else []
            ctx.violation("intrinsic-raises-arbitrary-exception", dict(expr=expr, expected=["unspecified value or a States.* failure"], engine=list(got), features=feats, family=tag),
                          classify_expr(ast, expr, ("unspecified",), got, feats))
        return
    got = engine_eval(expr)
    ctx.count("expressions_compared")
    ctx.count("ref_values_expected" if exp[0] == "val" else "ref_failures_expected")
    feats = features(ast) if ast else []
    if (ast and nest_depth(ast) >= 2) or feats or exp[0] != "val":
        ctx.nontrivial(expr)
    ctx.distinct("expressions", expr)
    ok = got[0] == exp[0] and (got[0] != "val" or I.pmatch(exp[1], got[1]))
    if ctx.counters["expressions_compared"] % 1499 == 1:
        ctx.sample(dict(expr=expr, expected=[exp[0]] + ([I.describe(exp[1])] if exp[0] == "val" else []), engine=got))
    if not ok:
        mech = classify_expr(ast, expr, exp, got, feats)
        ctx.violation("intrinsic-disagrees-with-reference" if got[0] != "EXC" else "intrinsic-raises-arbitrary-exception",
                      dict(expr=expr, expected=[exp[0]] + ([I.describe(exp[1])] if exp[0] == "val" else []), engine=list(got), features=feats, family=tag), mech)


PRIORITY = ["intrinsic-nested-depth>=2", "intrinsic-paren-in-string-arg", "intrinsic-escaped-apostrophe-or-backslash", "format-python-str-format",
            "intrinsic-bool-as-int", "intrinsic-float-as-int", "arrayunique-set", "stringsplit-regex-metachar", "arraycontains-python-equality",
            "jsonmerge-non-object", "stringtojson-lenient"]


def classify_expr(ast, expr, exp, got, feats):
    for p in PRIORITY:
        if p in feats:
            return p
    return None


def gen_template(r, depth):
    t = {}
    for i in range(r.randint(1, 3)):
        k = r.choice(["a", "b", "c", "lit", "x.y", "k$", "$k", "p.$x"]) + str(i)
        c = r.random()
        if c < 0.3:
            t[k + ".$"] = r.choice(PATHS[:-3] + ["$", "$$.State.Name", "$.o.k"])
        elif c < 0.4:
            t[k + ".$"] = render(gen_call(r, 1))
        elif c < 0.6 and depth > 0:
            t[k] = gen_template(r, depth - 1)
        elif c < 0.7:
            t[k] = [r.choice([1, "$.notapath", "lit", None, {"n.$": "$.n"}, "States.UUID()", {"deep": [{"m.$": "$.s"}]}]) for _ in range(r.randint(0, 3))]
        else:
            t[k] = copy.deepcopy(r.choice([None, 0, "", "$.s", "$", "States.Format('x')", 1.5, True, {}, [], "plain.$"]))
    return t


def compare_template(ctx, tpl, data):
    from asl_workflow_engine.state_engine_paths import evaluate_payload_template
    from asl_workflow_engine.asl_exceptions import IntrinsicFailure, PathMatchFailure, ParameterPathFailure
    ctx.evaluation()
    try:
        exp = ("val", R.eval_template(tpl, data, CTX, I.intrinsic_hook))
    except R.StateError as e:
        exp = ("IntrinsicFailure",) if e.name == "States.IntrinsicFailure" else ("PathFailure",)
    except R.Unspecified:
        ctx.count("unspecified")
        return
    t2, d2, c2 = copy.deepcopy(tpl), copy.deepcopy(data), copy.deepcopy(CTX)
    try:
        got = ("val", evaluate_payload_template(d2, c2, t2))
    except IntrinsicFailure:
        got = ("IntrinsicFailure",)
    except (PathMatchFailure, ParameterPathFailure):
        got = ("PathFailure",)
    except Exception as e:
        got = ("EXC", type(e).__name__)
    ctx.count("templates_compared")
    ctx.nontrivial(dict(t=tpl, d=data))
    if t2 != tpl or d2 != data or c2 != CTX:
        ctx.violation("template-evaluation-mutated-its-arguments", dict(template=tpl, input=data, template_after=t2, input_after=d2))
    ok = got[0] == exp[0] and (got[0] != "val" or I.pmatch(exp[1], got[1]))
    if not ok:
        mech = None
        js = json.dumps(tpl)
        if data is None:
            mech = "null-document-as-empty-object"
        elif '.$": "States.' in js and template_intrinsic_mechanism(tpl, data):
            mech = template_intrinsic_mechanism(tpl, data)         # one of its own intrinsic expressions disagrees on its own, for a listed reason
        elif not isinstance(data, (dict, list)) and '.$": "$"' in js:
            mech = "template-root-path-primitive"
        elif _array_string_dollar(tpl):
            mech = "template-array-literal-dollar-suffix"
        ctx.violation("template-disagrees-with-reference", dict(template=tpl, input=data, expected=[exp[0]] + ([I.describe(exp[1])] if exp[0] == "val" else []),
                                                                 engine=list(got)), mech)


def template_intrinsic_mechanism(tpl, data):
    """Attribute a template-level disagreement to a listed intrinsic finding only if one of the template's own
    '.$' intrinsic expressions disagrees on its own and that disagreement satisfies the finding's predicate."""
    mechs = set()

    def walk(t):
        if isinstance(t, dict):
            for k, v in t.items():
                if isinstance(k, str) and k.endswith(".$") and isinstance(v, str) and not v.startswith("$"):
                    try:
                        exp = ref_eval(v, data)
                    except (I.Unspec, R.Unspecified):
                        continue
                    got = engine_eval(v, data)
                    if not (got[0] == exp[0] and (got[0] != "val" or I.pmatch(exp[1], got[1]))):
                        try:
                            ast = I.parse_call(v)[0]
                        except Exception:
                            ast = None
                        mechs.add(classify_expr(ast, v, exp, got, features(ast) if ast else []))
                else:
                    walk(v)
        elif isinstance(t, list):
            for x in t:
                walk(x)
    walk(tpl)
    # several expressions may disagree, each for a listed reason; an expression that disagrees for no listed reason keeps the violation unlisted
    return sorted(mechs)[0] if mechs and None not in mechs else None


def _array_string_dollar(t):
    if isinstance(t, list):
        return any((isinstance(x, str) and x.endswith(".$")) or _array_string_dollar(x) for x in t)
    if isinstance(t, dict):
        return any(_array_string_dollar(v) for v in t.values())
    return False


def compare_state(ctx, expr_ast):
    """Error names through a real Pass state: IntrinsicFailure for ill-formed calls, a path failure for bad paths."""
    expr = render(expr_ast)
    if "$$" in expr:
        return          # the real execution's context object differs from the function-level one
    try:
        exp = ref_eval(expr)
    except (I.Unspec, R.Unspecified):
        return
    if exp[0] == "val" and I.has_pattern(exp[1]):
        return
    asl = {"StartAt": "S", "States": {"S": {"Type": "Pass", "Parameters": {"r.$": expr}, "End": True}}}
    res = mini.run(asl, copy.deepcopy(DATA))
    ctx.evaluation()
    ctx.count("state_level_compared")
    if exp[0] == "val":
        ok = res["status"] == "SUCCEEDED" and R.matches({"r": exp[1]}, res["output"])
    elif exp[0] == "IntrinsicFailure":
        ok = res["status"] == "FAILED" and res["error"] == "States.IntrinsicFailure"
    else:
        ok = res["status"] == "FAILED" and res["error"] in ("States.Runtime", "States.ParameterPathFailure")
    if not ok:
        feats = features(expr_ast)
        ctx.violation("state-level-intrinsic", dict(expr=expr, expected=list(exp[:1]), engine=[res["status"], res["error"], res["output"]], features=feats),
                      classify_expr(expr_ast, expr, exp, None, feats))


def compare_selector_state(ctx, k):
    """The same template rules wherever a template may stand: Task ResultSelector (its input is the task's result, of ANY JSON type), Map
    ItemSelector, Map/Parallel ResultSelector, Pass/Task Parameters - through real executions."""
    r = ctx.rng("selector", k)
    FN = "arn:aws:rpcmessage:local::function:"
    result = copy.deepcopy(r.choice(["str", 5, 0, 1.5, True, False, None, [], [1, {"a": 2}], {}, {"k": {"j": [1]}}, ""]))
    tpl = {}
    for j in range(r.randint(1, 3)):
        c = r.random()
        if c < 0.35:
            tpl["v%d.$" % j] = r.choice(["$", "$", "$.k", "$.k.j", "$[0]", "$$.State.Name", "$$.Execution.Name"])
        elif c < 0.6:
            tpl["lit%d" % j] = copy.deepcopy(r.choice([1, "$.notapath", None, {"n.$": "$"}, ["$", {"m.$": "$"}], "plain.$", {}]))
        else:
            tpl["n%d" % j] = {"deep": {"w.$": "$"}, "c": j}
    where = ["task-result-selector", "task-parameters", "map-item-selector", "map-result-selector", "parallel-result-selector"][k % 5]
    data = {"k": {"j": [1]}, "items": [result, 7]}
    if where == "task-result-selector":
        st = {"Type": "Task", "Resource": FN + "res", "ResultSelector": tpl, "End": True}
    elif where == "task-parameters":
        st = {"Type": "Task", "Resource": FN + "echo", "Parameters": tpl, "End": True}
    elif where == "map-item-selector":
        t2 = dict(tpl, **{"item.$": "$$.Map.Item.Value", "idx.$": "$$.Map.Item.Index"})
        st = {"Type": "Map", "ItemsPath": "$.items", "ItemSelector": t2, "ItemProcessor": {"StartAt": "I", "States": {"I": {"Type": "Pass", "End": True}}}, "End": True}
    elif where == "map-result-selector":
        st = {"Type": "Map", "ItemsPath": "$.items", "ResultSelector": tpl, "ItemProcessor": {"StartAt": "I", "States": {"I": {"Type": "Pass", "End": True}}}, "End": True}
    else:
        st = {"Type": "Parallel", "ResultSelector": tpl, "Branches": [{"StartAt": "B", "States": {"B": {"Type": "Pass", "Result": result, "End": True}}}], "End": True}
    asl = {"StartAt": "S", "States": {"S": st}}
    from lsfverif.gen.machines import task_oracle
    funcs = {"res": ["const", result], "echo": ["echo"]}
    try:
        o = R.Interp(asl, task_oracle(funcs), exec_id="arn:aws:states:local:0123456789:execution:m:e", exec_name="e").run(copy.deepcopy(data))
    except R.Unspecified:
        ctx.count("unspecified")
        return
    res = mini.run(asl, copy.deepcopy(data), tasks=lambda fn, p: copy.deepcopy(result) if fn == "res" else p)
    ctx.evaluation(); ctx.count("state_level_compared"); ctx.count("selector_cases"); ctx.count("selector:" + where)
    exp = ("SUCCEEDED", o.output) if o.status == "SUCCEEDED" else ("FAILED", o.error)
    got = ("SUCCEEDED", res["output"]) if res["status"] == "SUCCEEDED" else (res["status"], res["error"])
    ok = got[0] == exp[0] and (R.matches(exp[1], got[1]) if got[0] == "SUCCEEDED" else (got[1] == exp[1] or {got[1], exp[1]} <= {"States.Runtime", "States.ParameterPathFailure"}))
    ctx.nontrivial(["selector", where, tpl, result])
    if not ok:
        mech = None
        if o.facts.get("null_docs") or result is None:
            mech = "null-document-as-empty-object"
        elif o.facts.get("error_member_values") and got[0] == "FAILED":
            mech = "inband-error-member"
        ctx.violation("state-level-template", dict(where=where, state=st, input=data, task_result=result, expected=exp, engine=got), mech)


FIXED_CASES = [
    "States.Format('{}', 'a')", "States.Format('a\\{b\\}c')", "States.Format('it\\'s {}', 'x')", "States.Format('{0.__class__}', 'a')",
    "States.Format('{} {}', $.s, $.n)", "States.Format('{', 'a')", "States.Array(1, 'a', null, $.o)", "States.ArrayUnique($.arr)",
    "States.ArrayUnique($.sa)", "States.ArrayUnique($.nest)", "States.ArrayUnique($.mixed)", "States.StringSplit('a^b', '^')",
    "States.StringSplit('a.b-c', '.-')", "States.StringSplit('a]b', ']')", "States.StringSplit('a\\\\b', '\\\\')", "States.StringSplit($.s, ',')",
    "States.MathAdd(1, 2)", "States.MathAdd(true, 1)", "States.MathAdd(1.0, 1)", "States.ArrayGetItem($.arr, 1)", "States.ArrayGetItem($.arr, 9)",
    "States.ArrayRange(1, 9, 2)", "States.ArrayRange(1, 5000, 1)", "States.ArrayRange(5, 1, -2)", "States.ArrayRange(9, 1, -1)", "States.ArrayRange(5, 2, -2)",
    "States.ArrayRange(1, 1, -1)", "States.ArrayRange(3, 4, -1)", "States.ArrayRange(1000, 1, -1)", "States.ArrayRange(1001, 1, -1)", "States.ArrayRange(-3, 3, 3)", "States.ArrayPartition($.arr, 2)", "States.ArrayPartition($.arr, 0)",
    "States.Base64Encode('hello')", "States.Base64Decode($.b64)", "States.Hash('a', 'SHA-256')", "States.Hash('a', 'SHA-3')",
    "States.JsonMerge($.o, $.o2, false)", "States.JsonMerge($.o, $.o2, true)", "States.JsonToString($.o)", "States.StringToJson('[1,2]')",
    "States.StringToJson('{bad')", "States.UUID()", "States.UUID(1)", "States.Nope(1)", "notacall", "States.ArrayLength(States.Array(1, States.Array(2, 3)))",
    "States.Array(States.Array(States.Array(1)))", "States.Format('a(b)')", "States.Array('x,y', 'z')", "States.ArrayContains($.arr, 3)",
    "States.ArrayContains($.mixed, 1)", "States.ArrayContains($.nest, $.e)", "States.ArrayLength($.s)", "States.MathAdd($.missing, 1)",
]


def run(ctx):
    contracts.install()
    i = 0
    for e in FIXED_CASES:
        i += 1
        if ctx.mine(i):
            try:
                ast = I.parse_call(e)[0]
            except Exception:
                ast = None
            compare_expr(ctx, ast, e, "fixed")
    n = ctx.pick(9000, 1500000)
    for k in range(n):
        i += 1
        if not ctx.mine(i):
            continue
        r = ctx.rng("expr", k)
        ast = gen_call(r, r.choice([0, 1, 1, 2, 2, 3]))
        compare_expr(ctx, ast)
        if k % 12 == 0:
            compare_state(ctx, ast)
    nt = ctx.pick(1500, 240000)
    for k in range(nt):
        i += 1
        if not ctx.mine(i):
            continue
        r = ctx.rng("tpl", k)
        data = copy.deepcopy(DATA) if r.random() < 0.8 else r.choice([[1, 2], "str", 5, None, {}])
        compare_template(ctx, gen_template(r, ctx.pick(3, 5)), data)
    for k in range(ctx.pick(600, 30000)):
        i += 1
        if ctx.mine(i):
            compare_selector_state(ctx, k)
    freshness_cases(ctx)
    for v in contracts.drain():
        ctx.violation("contract:" + v["contract"], v, "template-root-path-primitive" if False else None)
    ctx.count("contract_evaluations", sum(contracts.evaluations.values()))
    # hash-seed independence: shard 0 evaluates a fixed corpus in sub-processes with different PYTHONHASHSEEDs
    if ctx.shard == 0:
        hashseed_sweep(ctx)


UUID4 = __import__("re").compile(r"[0-9a-f]{8}-[0-9a-f]{4}-4[0-9a-f]{3}-[89ab][0-9a-f]{3}-[0-9a-f]{12}")


def freshness_cases(ctx):
    """States.UUID() gives a new version-4 UUID at EVERY evaluation, wherever the call stands (top level, nested in other intrinsics, in several members of one
    template, in a Map's ItemSelector across iterations and executions); States.MathRandom stays inside its range at every evaluation and is not frozen."""
    from lsfverif.sim import mini
    exprs = ["States.UUID()", "States.Format('job-{}', States.UUID())", "States.Array(States.UUID(), States.UUID())", "States.Format('{}/{}', States.UUID(), $.s)",
             "States.JsonToString(States.UUID())", "States.StringSplit(States.UUID(), '-')"]        # (one level of nesting: deeper nesting is a listed finding)
    for j, e in enumerate(exprs):
        if not ctx.mine(j):
            continue
        ctx.evaluation(); ctx.count("freshness_cases"); ctx.nontrivial(["fresh", e])
        seen, bad = [], None
        for rep in range(6):
            got = engine_eval(e)
            if got[0] != "val":
                bad = ("evaluation failed", got); break
            text = json.dumps(got[1]).replace('", "', "-") if "StringSplit" in e else json.dumps(got[1])
            ids = UUID4.findall(text)
            if not ids:
                bad = ("no version-4 UUID in the value", got[1]); break
            seen += ids
        if bad is None and len(set(seen)) != len(seen):
            bad = ("the same UUID was produced by different evaluations", seen[:6])
        if bad:
            ctx.violation("uuid-not-fresh-at-every-evaluation", dict(expr=e, problem=bad[0], observed=bad[1]), None)
    # through the engine: an ItemSelector evaluated once per iteration, in two executions
    if ctx.mine(len(exprs)):
        asl = {"StartAt": "M", "States": {"M": {"Type": "Map", "ItemsPath": "$.xs", "ItemSelector": {"job.$": "States.Format('job-{}', States.UUID())", "n.$": "States.MathAdd(States.MathRandom(0, 1000000), 0)"},
                                                "ItemProcessor": {"StartAt": "w", "States": {"w": {"Type": "Pass", "End": True}}}, "End": True}}}
        jobs, nums = [], []
        for rep in range(3):
            res = mini.run(asl, {"xs": [1, 2, 3, 4]})
            ctx.evaluation(); ctx.count("freshness_cases")
            if res["status"] != "SUCCEEDED":
                ctx.violation("uuid-not-fresh-at-every-evaluation", dict(expr="ItemSelector", problem="execution did not succeed", observed=[res["status"], res.get("error")]), None)
                break
            jobs += [x["job"] for x in res["output"]]; nums += [x["n"] for x in res["output"]]
        else:
            if len(set(jobs)) != len(jobs):
                ctx.violation("uuid-not-fresh-at-every-evaluation", dict(expr="ItemSelector of a Map, 4 items x 3 executions", problem="the same UUID in different iterations", observed=jobs[:5]), None)
            if any(not (isinstance(x, int) and 0 <= x <= 1000000) for x in nums) or len(set(nums)) == 1:
                ctx.violation("mathrandom-frozen-or-out-of-range", dict(observed=nums), None)


def corpus_digest(seed, n):
    """Evaluated in a sub-process: digest of the raw results of a fixed corpus (called via `python -m`)."""
    from lsfverif.core import Ctx
    c = Ctx(ID, "quick", seed)
    out = []
    for k in range(n):
        r = c.rng("hs", k)
        ast = gen_call(r, 2)
        # aim at hash-ordered containers
        if k % 3 == 0:
            ast = ("call", "ArrayUnique", [("path", r.choice(["$.arr", "$.sa", "$.mixed", "$.flags", "$.jt"]))])
        if k % 3 == 1:
            ast = ("call", "ArrayUnique", [("call", "Array", [gen_str(r, 2) for _ in range(r.randint(2, 6))])])
        if "UUID" in render(ast) or "MathRandom" in render(ast):
            continue
        out.append((render(ast), engine_eval(render(ast))))
    return out


def hashseed_sweep(ctx):
    n = ctx.pick(600, 6000)
    results = {}
    for hs in ("0", "1", "2", "random"):
        env = dict(os.environ, PYTHONHASHSEED=hs, LOG_LEVEL="CRITICAL")
        p = subprocess.run([sys.executable, "-c",
                            "import sys, json; sys.path.insert(0, %r)\nfrom lsfverif.core import setup_paths; setup_paths()\n"
                            "from lsfverif.checks import c13\nprint(json.dumps(c13.corpus_digest(%d, %d), default=repr))" % (ROOT, ctx.seed, n)],
                           env=env, capture_output=True, text=True, timeout=600)
        if p.returncode != 0:
            ctx.inconclusive("hash-seed sub-process failed: " + p.stderr[-500:])
            return
        results[hs] = json.loads(p.stdout)
        ctx.count("hashseed_runs")
    base = results["0"]
    for hs, res in results.items():
        for (e, a), (_, b) in zip(base, res):
            ctx.count("hashseed_comparisons")
            if a != b:
                ctx.violation("result-depends-on-hash-seed", dict(expr=e, seed0=a, other_seed=hs, other=b), "arrayunique-set")


WITNESSES = {
    "format-python-str-format": "States.Format('{0.__class__}', 'a')",
    "intrinsic-nested-depth>=2": "States.Array(States.Array(States.Array(1)))",
    "intrinsic-paren-in-string-arg": "States.Array('a)', 'b')",
    "intrinsic-escaped-apostrophe-or-backslash": "States.Format('it\\'s')",
    "intrinsic-bool-as-int": "States.MathAdd(true, 1)",
    "arrayunique-set": "States.ArrayUnique($.nest)",
    "stringsplit-regex-metachar": "States.StringSplit('a^b', '^')",
    "arraycontains-python-equality": "States.ArrayContains($.arr, true)",
}


def witnesses(ctx):
    for fid, e in WITNESSES.items():
        sub = type(ctx)(ctx.check_id, ctx.tier, ctx.seed)
        try:
            ast = I.parse_call(e)[0]
        except Exception:
            ast = None
        compare_expr(sub, ast, e, "witness")
        ctx.witness(fid, bool(sub.violation_counts), sub.violations[0]["witness"] if sub.violations else None)
        for v in sub.violations:
            ctx.violation(v["kind"], v["witness"], fid)
    sub = type(ctx)(ctx.check_id, ctx.tier, ctx.seed)
    compare_template(sub, {"x.$": "$"}, 5)
    ctx.witness("template-root-path-primitive", bool(sub.violation_counts), sub.violations[0]["witness"] if sub.violations else None)
    for v in sub.violations:
        ctx.violation(v["kind"], v["witness"], "template-root-path-primitive")
    sub = type(ctx)(ctx.check_id, ctx.tier, ctx.seed)
    compare_template(sub, {"l": ["$.s.$"]}, DATA)
    ctx.witness("template-array-literal-dollar-suffix", bool(sub.violation_counts), sub.violations[0]["witness"] if sub.violations else None)
    for v in sub.violations:
        ctx.violation(v["kind"], v["witness"], "template-array-literal-dollar-suffix")


def replay(ctx, doc):
    w = doc["witness"]
    if "expr" in w:
        try:
            ast = I.parse_call(w["expr"])[0]
        except Exception:
            ast = None
        compare_expr(ctx, ast, w["expr"], "replay")
        print("expr", w["expr"], "engine", engine_eval(w["expr"]))
    elif "template" in w:
        compare_template(ctx, w["template"], w["input"])
