"""
Simulated world: the REAL StateEngine / TaskDispatcher / EventDispatcher / messaging modules / REST
front ends of the repository, running on a simulated pika broker, a virtual clock and (optionally) a
simulated Redis.  Nothing happens spontaneously: every delivery, reply, return and timer is a scheduler
action, so schedules, time, faults and crashes are inputs.
"""
import sys, os, json, random, asyncio, types, datetime as _dt, time as _time, uuid as _uuid, tempfile, shutil, collections, importlib

from lsfverif.core import REPO_PY
if REPO_PY not in sys.path:
    sys.path.insert(0, REPO_PY)
os.environ.setdefault("LOG_LEVEL", "CRITICAL")

from lsfverif.sim import fakepika, fakeredis
fakepika.install()
fakeredis.install()
from lsfverif.sim.fakepika import EngineCrash

EPOCH0 = 1_700_000_000.0
HOUSEKEEPING = ("heartbeat",)
EVENTQ = "asl_workflow_events"
REPLYQ = "asl_workflow_reply_to"
TOPIC = "asl_workflow_engine"
ACCOUNT = "0123456789"
ROLE = "arn:aws:iam::0123456789:role/r"


class Clock(object):
    def __init__(self, start=EPOCH0):
        self.now = start


class FakeTime(types.ModuleType):
    def __init__(self, clock):
        super().__init__("time")
        self.__dict__.update({k: v for k, v in _time.__dict__.items() if not k.startswith("__")})
        self.__dict__["time"] = lambda: clock.now          # must come after the copy


def make_fake_datetime(clock):
    class FakeDateTime(_dt.datetime):
        @classmethod
        def now(cls, tz=None):
            return cls.fromtimestamp(clock.now, tz)
    return FakeDateTime


_TIME_MODULES = ("state_engine", "task_dispatcher", "rest_api_asyncio", "rest_api")


def patch_time(clock):
    ft, fd = FakeTime(clock), make_fake_datetime(clock)
    for name in _TIME_MODULES:
        try:
            m = importlib.import_module("asl_workflow_engine." + name)
        except Exception:
            continue
        if hasattr(m, "time"):
            m.time = ft
        if hasattr(m, "datetime"):
            m.datetime = fd


def set_tz(tz):
    os.environ["TZ"] = tz
    _time.tzset()


class Detach(BaseException):
    """Unwinds EventDispatcher.start() (blocking transport) once set-up is complete."""


NOREPLY = ("noreply",)


def RAW(b):
    return ("raw", b)


def DELAY(seconds, result):
    return ("delay", seconds, result)


class Worker(object):
    """Simulated rpcmessage processor on the repository's own *blocking* transport's pika surface."""

    def __init__(self, world, name, behaviour, auto_delete=True):
        self.world, self.name, self.behaviour = world, name, behaviour
        self.requests = []      # every request seen, in arrival order
        self.ready = []         # requests whose reply may be sent now
        self.replies = []
        self.conn = fakepika.BlockingConnection(fakepika.URLParameters("amqp://sim"))
        self.conn.name = "worker:" + name
        self.ch = self.conn.channel()
        self.ch.queue_declare(name, auto_delete=auto_delete)
        self.ch.basic_consume(name, self.on_request)

    def on_request(self, ch, method, props, body):
        w = self.world
        try:
            payload = json.loads(body)
        except ValueError:
            payload = ("unparsable", body)
        req = dict(t=w.clock.now, step=w.broker.step, cid=props.correlation_id, reply_to=props.reply_to,
                   payload=payload, n=len(self.requests), seq=next(w.broker.seq), expiration=props.expiration,
                   redelivered=method.redelivered, worker=self.name, headers=props.headers, op=len(w.broker.oplog))
        self.requests.append(req)
        ch.basic_ack(method.delivery_tag)
        result = self.behaviour(self, req)
        req["result"] = result
        if isinstance(result, tuple) and result and result[0] == "delay":
            req["result"] = result[2]
            w.at(w.clock.now + result[1], lambda: self.ready.append(req), "worker-delay")
        else:
            self.ready.append(req)

    def reply(self, req):
        self.ready.remove(req)
        result = req["result"]
        if result is NOREPLY:
            return
        if isinstance(result, tuple) and result and result[0] == "raw":
            body = result[1]
        else:
            body = json.dumps(result)
        self.replies.append(dict(t=self.world.clock.now, cid=req["cid"], n=req["n"], step=self.world.broker.step))
        self.ch.basic_publish("", req["reply_to"], body,
                              fakepika.BasicProperties(correlation_id=req["cid"], content_type="application/json"))


class Action(object):
    __slots__ = ("kind", "label", "seq", "obj")

    def __init__(self, kind, label, seq, obj):
        self.kind, self.label, self.seq, self.obj = kind, label, seq, obj

    def __repr__(self):
        return "Action%r" % (self.label,)


class _WorldConn(object):
    """Holder of world-level virtual timers (worker latencies etc.)."""
    name = "world"

    def __init__(self):
        self.timers = []


class World(object):
    def __init__(self, seed=0, instances=("i1",), store="json", queue_type="classic", tz="UTC",
                 execution_ttl=600, transport="asyncio", orphan_retention_ms=5000, validate_asl=False,
                 capacities=(1000, 1000, 100), message_ttl=0):
        self.seed = seed
        self.rng = random.Random(seed)
        self.clock = Clock()
        set_tz(tz)
        self.tz = tz
        self.broker = fakepika.Broker(self.clock)
        fakepika.URLParameters.brokers["sim"] = self.broker
        patch_time(self.clock)
        self._uuid_rng = random.Random(seed ^ 0x5EED)
        self._real_uuid4 = _uuid.uuid4
        _uuid.uuid4 = lambda: _uuid.UUID(int=self._uuid_rng.getrandbits(128), version=4)
        self.loop = asyncio.new_event_loop()
        asyncio.set_event_loop(self.loop)
        self.queue_type, self.execution_ttl, self.transport = queue_type, execution_ttl, transport
        self.orphan_retention_ms, self.validate_asl, self.capacities, self.message_ttl = orphan_retention_ms, validate_asl, capacities, message_ttl
        self.store = store
        self.tmp = tempfile.mkdtemp(prefix="lsfworld-", dir=os.environ.get("LSF_WORK"))
        self.store_url = os.path.join(self.tmp, "ASL_store.json") if store == "json" else "redis://sim:6379"
        if store == "redis":
            self.redis = fakeredis.Server(clock=self.clock)
            fakeredis.SERVERS["sim"] = self.redis
        self.notifications = []
        self.engines = {}
        self.dead_engines = []
        self.workers = {}
        self.trace = []             # labels of the actions taken (the replayable schedule)
        self.steps = []             # dict(step, label, kind, t)
        self.step_info = {}         # step -> dict(kind, label, timer_armed_step, timer_cb)
        self.step_hooks = []        # callables(world, action) after each step
        self.wconn = _WorldConn()
        self.crashes = []
        self._apps = {}
        self.suffix = "-qq" if queue_type == "quorum" else ""
        self.broker.exchanges[TOPIC] = "topic"
        self.broker.taps.setdefault(TOPIC, []).append(self._on_notification)
        for iid in instances:
            self.start_engine(iid)

    # ------------------------------------------------------------------ plumbing
    def close(self):
        for iid in list(self.engines):
            try:
                self.crash_engine(iid, record=False)
            except BaseException:
                pass
        for e in self.dead_engines:
            self._stop_stores(e)
        try:
            pending = asyncio.all_tasks(self.loop)
            for t in pending:
                t.cancel()
            if pending:
                self.loop.run_until_complete(asyncio.gather(*pending, return_exceptions=True))
        except BaseException:
            pass
        self.loop.close()
        _uuid.uuid4 = self._real_uuid4
        shutil.rmtree(self.tmp, ignore_errors=True)

    def __enter__(self):
        return self

    def __exit__(self, *a):
        self.close()

    def _stop_stores(self, e):
        if self.store == "redis":
            for st in (e.se.asl_store, e.se.executions, e.se.execution_history):
                try:
                    st.stop()
                except BaseException:
                    pass

    def _on_notification(self, routing_key, body, props):
        self.notifications.append(dict(t=self.clock.now, step=self.broker.step, n=len(self.broker.oplog), subject=routing_key,
                                       body=json.loads(body), expiration=props.expiration, props=props.as_dict()))

    def pump(self, n=5):
        for _ in range(n):
            self.loop.run_until_complete(asyncio.sleep(0))

    def at(self, when, callback, name="world-timer"):
        t = fakepika._Timer(when, callback, next(self.broker.seq), self.broker.step, self.wconn)
        t.name = name
        self.wconn.timers.append(t)
        return t

    # ------------------------------------------------------------------ engines
    def config(self, iid, transport=None):
        transport = transport or self.transport
        return {
            "event_queue": {"queue_name": EVENTQ, "instance_id": iid,
                            "queue_implementation": "AMQP-0.9.1-asyncio" if transport == "asyncio" else "AMQP-0.9.1",
                            "queue_type": self.queue_type,
                            "connection_url": "amqp://sim:5672?connection_attempts=1&retry_delay=1&heartbeat=0",
                            "shared_event_consumer_capacity": self.capacities[0], "instance_event_consumer_capacity": self.capacities[1],
                            "reply_to_consumer_capacity": self.capacities[2], "orphaned_response_retention_ms": self.orphan_retention_ms},
            "notifier": {"topic": "{\"node\": {\"x-declare\": {\"exchange\": \"asl_workflow_engine\", \"exchange-type\": \"topic\", \"durable\": true}}}",
                         "message_ttl": self.message_ttl},
            "state_engine": {"store_url": self.store_url, "execution_ttl": self.execution_ttl},
            "rest_api": {"host": "0.0.0.0", "port": 4584, "region": "local", "validate_asl": self.validate_asl},
            "tracer": {"implementation": "None"}, "metrics": {"implementation": "None"},
        }

    def start_engine(self, iid, transport=None):
        from asl_workflow_engine.state_engine import StateEngine
        from asl_workflow_engine.event_dispatcher import EventDispatcher
        import asl_workflow_engine.store as store_mod
        transport = transport or self.transport
        cfg = self.config(iid, transport)
        if self.store == "redis" and hasattr(store_mod.RedisStore, "connection"):
            del store_mod.RedisStore.connection            # one connection per engine process
        se = StateEngine(cfg)
        if self.store == "redis" and hasattr(store_mod.RedisStore, "connection"):
            del store_mod.RedisStore.connection
        ed = EventDispatcher(se, cfg)
        task = None
        self.broker.next_conn_name = "engine:" + iid
        if transport == "asyncio":
            task = self.loop.create_task(ed.start_asyncio())
            for _ in range(400):
                self.loop.run_until_complete(asyncio.sleep(0))
                if task.done():
                    raise RuntimeError("engine start failed: %r" % (task.exception() if not task.cancelled() else "cancelled"))
                conn = getattr(ed, "session", None) and ed.session.connection
                if conn is not None and hasattr(conn, "closed") and hasattr(se.task_dispatcher, "producer") and any(
                        getattr(t.cb, "__name__", "") == "heartbeat" for t in conn.connection.timers):
                    # the on_close callback is registered right after the heartbeat timer
                    self.loop.run_until_complete(asyncio.sleep(0))
                    break
            else:
                raise RuntimeError("engine did not become ready")
        else:
            def hook(conn):
                raise Detach()
            orig = fakepika.BlockingConnection.__init__

            def init(conn_self, parameters=None):
                orig(conn_self, parameters)
                conn_self.consume_hook = hook
            fakepika.BlockingConnection.__init__ = init
            try:
                ed.start()
                raise RuntimeError("blocking engine returned from start()")
            except Detach:
                pass
            finally:
                fakepika.BlockingConnection.__init__ = orig
        pconn = ed.session.connection.connection
        pconn.name = "engine:" + iid
        e = types.SimpleNamespace(iid=iid, se=se, ed=ed, td=se.task_dispatcher, task=task, conn=pconn, cfg=cfg,
                                  transport=transport, started_step=self.broker.step)
        self.engines[iid] = e
        return e

    def crash_engine(self, iid, record=True):
        """Process death: volatile state and timers are lost, the connection drops (unacked messages are
        requeued with redelivered=True), broker queues / worker state / persistent stores survive."""
        e = self.engines.pop(iid)
        if e.task is not None:
            e.task.cancel()
            try:
                self.loop.run_until_complete(asyncio.gather(e.task, return_exceptions=True))
            except BaseException:
                pass
        e.conn.timers[:] = []
        self.broker.drop_connection(e.conn)
        self._apps.pop(iid, None)
        self.dead_engines.append(e)
        if record:
            self.crashes.append(dict(iid=iid, step=self.broker.step, t=self.clock.now))
        return e

    def restart_engine(self, iid):
        if iid in self.engines:
            self.crash_engine(iid)
        return self.start_engine(iid)

    def add_worker(self, name, behaviour, auto_delete=True):
        self.workers[name] = Worker(self, name, behaviour, auto_delete)
        return self.workers[name]

    # ------------------------------------------------------------------ actions
    def all_timers(self):
        ts = list(self.wconn.timers)
        for c in self.broker.connections:
            ts.extend(c.timers)
        return ts

    @staticmethod
    def is_housekeeping(t):
        return getattr(t.cb, "__name__", "") in HOUSEKEEPING

    def instantaneous(self):
        acts = []
        for q, c in self.broker.deliverable():
            acts.append(Action("deliver", ("deliver", q.name, c.channel.connection.name), q.messages[0].seq, (q, c)))
        for w in self.workers.values():
            for req in w.ready:
                acts.append(Action("reply", ("reply", w.name, req["n"]), req["seq"], (w, req)))
        if self.broker.returns:
            acts.append(Action("return", ("return",), 0, None))
        for t in self.all_timers():
            if t.due <= self.clock.now and not self.is_housekeeping(t):
                acts.append(Action("timer", ("timer", t.conn.name, t.seq), t.seq, t))
        if getattr(self, "redis", None) is not None:
            for i, inv in enumerate(self.redis.pending_invalidations):
                acts.append(Action("inval", ("inval", i), 0, i))
        return acts

    def enabled(self):
        """Discrete-event time model: everything enabled at the current instant may be ordered freely; the
        clock only advances (to the earliest armed timer) when nothing instantaneous is enabled."""
        acts = self.instantaneous()
        if acts:
            return acts
        future = [t for t in self.all_timers() if not self.is_housekeeping(t)]
        if not future:
            return []
        first = min(t.due for t in future)
        return [Action("timer", ("timer", t.conn.name, t.seq), t.seq, t) for t in future if t.due == first]

    def _advance_clock(self, to):
        """Move virtual time forward, firing the housekeeping timers (1 s heartbeat) that fall due on the way."""
        while True:
            hk = [t for t in self.all_timers() if self.is_housekeeping(t) and t.due <= to]
            if not hk:
                break
            t = min(hk, key=lambda x: (x.due, x.seq))
            if t.due > self.clock.now:
                self.clock.now = t.due
            self._fire(t, housekeeping=True)
        if to > self.clock.now:
            self.clock.now = to

    def _fire(self, t, housekeeping=False):
        if t in t.conn.timers:
            t.conn.timers.remove(t)
        self.broker.step += 1
        name = getattr(t.cb, "__qualname__", None) or getattr(t, "name", "?")
        self.step_info[self.broker.step] = dict(kind="timer", cb=name, armed_step=t.armed_step, due=t.due, conn=t.conn.name,
                                                housekeeping=housekeeping)
        t.cb()

    def advance(self, seconds):
        """Let virtual time pass with nothing else happening first (timers fire in due order)."""
        target = self.clock.now + seconds
        while True:
            ts = [t for t in self.all_timers() if not self.is_housekeeping(t) and t.due <= target]
            if not ts:
                break
            t = min(ts, key=lambda x: (x.due, x.seq))
            self.do(Action("timer", ("timer", t.conn.name, t.seq), t.seq, t))
            self.drain_instantaneous()
        self._advance_clock(target)

    def drain_instantaneous(self, policy=None, max_steps=100000):
        n = 0
        while n < max_steps:
            acts = self.instantaneous()
            if not acts:
                return n
            self.do((policy or canonical)(self, acts))
            n += 1
        raise RuntimeError("no quiescence")

    def do(self, act):
        kind = act.kind
        self.trace.append(act.label)
        crashed = None
        try:
            if kind == "timer":
                t = act.obj
                if t.due > self.clock.now:
                    self._advance_clock(t.due)
                if t.cancelled or t not in t.conn.timers:
                    return          # cancelled by a housekeeping callback on the way
                self._fire(t)
            else:
                self.broker.step += 1
                self.step_info[self.broker.step] = dict(kind=kind, label=act.label)
                if kind == "deliver":
                    q, c = act.obj
                    self.broker.deliver(q, c)
                elif kind == "reply":
                    w, req = act.obj
                    w.reply(req)
                elif kind == "return":
                    ch, method, props, body = self.broker.returns.popleft()
                    for cb in ch._on_return:
                        cb(ch, method, props, body)
                elif kind == "inval":
                    self.redis.deliver_invalidation(act.obj)
        except EngineCrash as c:
            crashed = c
        self.steps.append(dict(step=self.broker.step, label=act.label, kind=kind, t=self.clock.now))
        if crashed is not None:
            iid = crashed.args[0] if crashed.args else None
            if iid in self.engines:
                self.crash_engine(iid)
                if getattr(crashed, "restart", True):
                    self.start_engine(iid)
        for h in self.step_hooks:
            h(self, act)

    def step(self, policy=None):
        """Take exactly one scheduler step (False if nothing is enabled)."""
        acts = self.enabled()
        if not acts:
            return False
        self.do((policy or canonical)(self, acts))
        return True

    def run(self, policy=None, max_steps=20000, until=None):
        """Run until quiescent (nothing enabled except housekeeping).  Returns the number of steps taken."""
        policy = policy or canonical
        for i in range(max_steps):
            if until is not None and until(self):
                return i
            acts = self.enabled()
            if not acts:
                return i
            self.do(policy(self, acts))
        raise RuntimeError("no quiescence after %d steps" % max_steps)

    # ------------------------------------------------------------------ clients
    def client_channel(self):
        if not hasattr(self, "_client"):
            self._client = fakepika.BlockingConnection(fakepika.URLParameters("amqp://sim"))
            self._client.name = "client"
            self._client_ch = self._client.channel()
        return self._client_ch

    def sm_arn(self, name):
        return "arn:aws:states:local:%s:stateMachine:%s" % (ACCOUNT, name)

    def create_machine(self, name, definition, typ="STANDARD", logging=None, iid=None):
        """Store a definition the way CreateStateMachine does (same record shape), without HTTP."""
        arn = self.sm_arn(name)
        e = self.engines[iid] if iid else next(iter(self.engines.values()))
        e.se.asl_store[arn] = {"creationDate": self.clock.now, "definition": definition, "name": name,
                               "roleArn": ROLE, "stateMachineArn": arn,
                               "updateDate": self.clock.now, "status": "ACTIVE", "type": typ,
                               "loggingConfiguration": logging or {"level": "OFF"}}
        return arn

    def start_event(self, sm_arn, name, data, message_id=None, queue=None, extra_context=None):
        """Publish a raw start event to the shared queue (what StartExecution publishes)."""
        ch = self.client_channel()
        exec_arn = sm_arn.replace(":stateMachine:", ":execution:") + ":" + name
        start = _dt.datetime.fromtimestamp(self.clock.now, _dt.timezone.utc).astimezone().isoformat()
        ctx = {"Execution": {"Id": exec_arn, "Input": data, "Name": name, "RoleArn": ROLE, "StartTime": start},
               "State": {"EnteredTime": start, "Name": ""}, "StateMachine": {"Id": sm_arn, "Name": sm_arn.rsplit(":", 1)[1]}}
        if extra_context:
            ctx.update(extra_context)
        ch.basic_publish("", queue or (EVENTQ + self.suffix), json.dumps({"data": data, "context": ctx}),
                         fakepika.BasicProperties(message_id=message_id or ("start-" + name), content_type="application/json", delivery_mode=2))
        return exec_arn

    def start_minimal_event(self, sm_arn, name, data):
        """The least a start event may carry: the data, the state machine's id and a name for the execution (everything else of the context object is
        filled in by the engine)."""
        ch = self.client_channel()
        ch.basic_publish("", EVENTQ + self.suffix, json.dumps({"data": data, "context": {"StateMachine": {"Id": sm_arn}, "Execution": {"Name": name}}}),
                         fakepika.BasicProperties(message_id="start-" + name, content_type="application/json", delivery_mode=2))
        return sm_arn.replace(":stateMachine:", ":execution:") + ":" + name

    def app(self, iid=None, flavour="asyncio"):
        iid = iid or next(iter(self.engines))
        key = (iid, flavour)
        if self._apps.get(iid, {}).get(flavour) is None:
            e = self.engines[iid]
            if flavour == "asyncio":
                import asl_workflow_engine.rest_api_asyncio as ra
                app = ra.RestAPI(e.se, e.ed, e.cfg).create_app()
            else:
                import asl_workflow_engine.rest_api as rb
                app = rb.RestAPI(e.se, e.ed, e.cfg).create_app()
            self._apps.setdefault(iid, {})[flavour] = app.test_client()
        return self._apps[iid][flavour]

    HEADERS = {"Content-Type": "application/x-amz-json-1.0"}

    def api_task(self, action, params, iid=None, raw=None):
        """Issue an API call as a task on the harness loop (needed for StartSyncExecution which blocks)."""
        client = self.app(iid, "asyncio")

        async def go():
            r = await client.post("/", headers=dict(self.HEADERS, **{"x-amz-target": "AWSStepFunctions." + action}),
                                  data=raw if raw is not None else json.dumps(params))
            body = (await r.get_data()).decode()
            try:
                return r.status_code, json.loads(body)
            except ValueError:
                return r.status_code, body
        return self.loop.create_task(go())

    def api(self, action, params, iid=None, raw=None, flavour="asyncio"):
        if flavour == "asyncio":
            return self.loop.run_until_complete(self.api_task(action, params, iid, raw))
        client = self.app(iid, "blocking")
        r = client.post("/", headers=dict(self.HEADERS, **{"x-amz-target": "AWSStepFunctions." + action}),
                        data=raw if raw is not None else json.dumps(params))
        body = r.get_data().decode()
        try:
            return r.status_code, json.loads(body)
        except ValueError:
            return r.status_code, body

    # ------------------------------------------------------------------ observation helpers
    def terminal_notifications(self, arn=None):
        return [n for n in self.notifications if n["body"]["detail"]["status"] != "RUNNING"
                and (arn is None or n["body"]["detail"]["executionArn"] == arn)]

    def outcome(self, arn, which=0):
        """(status, output-as-json | None, error | None, t) from the FIRST terminal notification (which=-1: the
        last one), or ("NONE", ...).  Whether more than one exists is C02's business."""
        terms = self.terminal_notifications(arn)
        if not terms:
            return ("NONE", None, None, None)
        d = terms[which]["body"]["detail"]
        out = json.loads(d["output"]) if d.get("output") is not None else None
        return (d["status"], out, d.get("error"), terms[which]["t"])

    def engine_ops(self):
        return [r for r in self.broker.oplog if (r["conn"] or "").startswith("engine:")]


# ---------------------------------------------------------------------- scheduling policies
def canonical(world, acts):
    """FIFO: the action that has been enabled longest (world-wide sequence number) goes first."""
    return min(acts, key=lambda a: (0 if a.kind == "return" else 1, a.seq))


def make_random(rng, prompt_timer_weight=1.0):
    def policy(world, acts):
        if prompt_timer_weight != 1.0 and len(acts) > 1:
            w = [prompt_timer_weight if a.kind == "timer" else 1.0 for a in acts]
            return rng.choices(acts, weights=w)[0]
        return acts[rng.randrange(len(acts))] if len(acts) > 1 else acts[0]
    return policy


class Replay(object):
    """Re-executes a recorded schedule (list of action labels); canonical once it is exhausted."""

    def __init__(self, labels, strict=False):
        self.labels, self.i, self.strict, self.diverged = [tuple(l) if isinstance(l, list) else l for l in labels], 0, strict, False

    def __call__(self, world, acts):
        while self.i < len(self.labels):
            want = self.labels[self.i]
            self.i += 1
            for a in acts:
                if tuple(a.label) == tuple(want):
                    return a
            self.diverged = True
            if self.strict:
                raise RuntimeError("replay diverged at %d: %r not in %r" % (self.i - 1, want, [a.label for a in acts]))
        return canonical(world, acts)


class Recorder(object):
    """Wraps a policy, recording the number of options and the chosen index at each choice point."""

    def __init__(self, policy):
        self.policy, self.points = policy, []

    def __call__(self, world, acts):
        acts = sorted(acts, key=lambda a: (a.kind, str(a.label)))
        a = self.policy(world, acts)
        self.points.append((len(acts), acts.index(a)))
        return a


class Prefix(object):
    """DFS support: forced choice indices for the first len(prefix) *choice points* (points with >1 option),
    index 0 (in sorted label order) afterwards.  `points` records (n_options, chosen) per choice point."""

    def __init__(self, prefix):
        self.prefix, self.points = list(prefix), []

    def __call__(self, world, acts):
        if len(acts) == 1:
            return acts[0]
        acts = sorted(acts, key=lambda a: (a.kind, str(a.label)))
        k = len(self.points)
        idx = self.prefix[k] if k < len(self.prefix) else 0
        if idx >= len(acts):
            idx = len(acts) - 1
        self.points.append((len(acts), idx))
        return acts[idx]


def dfs_schedules(run_one, max_runs=10000, max_depth=64):
    """Stateless exhaustive exploration by re-execution.  run_one(policy) runs one complete execution with
    the given policy and returns anything; yields (result, points) per distinct schedule.  Stops after
    max_runs (then `exhausted` attribute of the generator-returned info is False)."""
    prefix = []
    runs = 0
    while True:
        pol = Prefix(prefix)
        res = run_one(pol)
        runs += 1
        yield res, list(pol.points)
        pts = pol.points[:max_depth]
        # backtrack: last point where another option remains
        i = len(pts) - 1
        while i >= 0 and pts[i][1] + 1 >= pts[i][0]:
            i -= 1
        if i < 0 or runs >= max_runs:
            return
        prefix = [p[1] for p in pts[:i]] + [pts[i][1] + 1]
