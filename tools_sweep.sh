#!/bin/sh
# usage: tools_sweep.sh "<ids>" "<seeds>" [tier]  -- runs checks over seeds, prints anything that is not HELD
T="${3:-quick}"
for c in $1; do for s in $2; do
  out=$(VERIF_SEED=$s timeout 3000 ./check $c --tier $T 2>&1 | grep -E "^(VIOLATION|INCONCLUSIVE|HELD)" | cut -c1-230)
  case "$out" in HELD*) printf "%s/%s ok  " $c $s;; *) echo; echo "$c seed=$s: $out";; esac
done; done; echo
