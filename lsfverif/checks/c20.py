"""
C20  Stores act as dictionaries, persist definitions, and caches are never stale.

  D  every store kind (JSON file, in-memory, Redis dict-of-dicts, Redis dict-of-lists) runs generated operation sequences (set, nested update,
     get, cached get, delete, contains, iterate, len, append, ttl, reopen) beside a plain-dict reference model, with one or two clients on the
     shared kinds; the simulated Redis server hands cache invalidations to the harness, which delivers each of them at a chosen point between
     operations (so every placement occurs); after every operation the returned value is compared with the model
  C  cached views: a value that differs from the model is only admissible while an invalidation for that key and client is still undelivered;
     the cache never exceeds its capacity
  P  persistence through the real engine: definitions created through the REST API are described back unchanged after the engine process is
     killed and restarted (file and Redis stores); a store file that is not JSON makes the engine start empty instead of crashing
  T  execution records and histories written by a real execution carry the configured time-to-live on the server
"""
import json, copy, os, tempfile, shutil
from lsfverif.sim import fakeredis
from lsfverif.sim.world import World, ROLE, ACCOUNT

ID = "C20"
ENGINE = "simworld"
LEVEL = "exploration"
RULE = ("case D = operation sequence of 10..40 operations over 4 keys (two sharing a prefix, one containing ':') and ~10 values, per store kind, 1 or 2 clients, with "
        "invalidation deliveries interleaved at random positions (thorough: all placements for short sequences); case P/T = (store kind, machines, restart point); "
        "non-trivial = sequence with a cached read after a foreign write, a reopen, or a nested update; distinct by the operation sequence")
ASSUMPTIONS = ["Redis cannot hold empty hashes/lists (documented in store.py): an empty value is equivalent to an absent key for the Redis kinds",
               "the JSON file store writes through on top-level assignment and deletion (nested mutations reach the file with the next of those)",
               "the in-memory store is volatile by design; only file and Redis stores are required to persist",
               "the simulated Redis server implements RESP2 client tracking with REDIRECT: one invalidation per tracked key per write, delivered when the harness says so"]
FLOORS = {"evaluations": 6000, "sequences": 300, "ops": 6000, "kind:json": 50, "kind:simple": 50, "kind:rdict": 80, "kind:rlist": 50, "two_client_sequences": 60,
          "cached_reads": 500, "cached_reads_stale_while_invalidation_pending": 20, "cached_reads_after_delivery_of_invalidation": 100, "invalidations_delivered": 300, "reopens": 100,
          "cache_bound_checks": 500, "persistence_runs": 12, "ttl_keys_checked": 12, "corrupt_file_starts": 2, "nontrivial": 150}
SHARDS = {"quick": 16, "thorough": 16}
TECHNIQUE = "reference-model monitor (plain dict beside the real store classes on a simulated Redis server with harness-controlled invalidation delivery) + restart/persistence and TTL probes through the real engine"
LEVEL_TEXT = ("Each store class executes generated operation histories next to a dictionary model; the harness decides when each cache invalidation arrives, so stale reads are "
              "judged against exactly the set of undelivered invalidations. Held = every returned value admissible, caches within capacity, definitions survive restarts, "
              "TTLs set.")
LEVEL_NOTE = "real Redis/pottery are not installed: the server and the two client libraries are simulated at the command level store.py uses"
DESIGN_REF = "DESIGN.md section 6, C20"

KEYS = ["k1", "k1x", "k2", "a:b"]
DICT_VALUES = [{"a": 1}, {"a": 2, "b": [1, 2]}, {"definition": {"StartAt": "A", "States": {"A": {"Type": "Pass", "End": True}}}, "name": "m"}, {"n": None, "s": "x", "f": 1.5, "t": True},
               {"nested": {"deep": {"er": [1, {"x": 2}]}}}, {"ünï": "cødé"}, {}]
LIST_VALUES = [[1], [1, 2, 3], [{"id": 1, "type": "ExecutionStarted"}, {"id": 2, "type": "PassStateEntered"}], ["a", "b"], []]
FIELDS = ["a", "status", "definition", "z"]
ATOMS = [0, "RUNNING", "SUCCEEDED", {"x": 1}, [1, 2], None, 2.5]


def plain(v):
    if v is None or isinstance(v, (str, int, float, bool)):
        return v
    if hasattr(v, "items"):
        return {k: plain(x) for k, x in v.items()}
    try:
        return [plain(x) for x in v]
    except TypeError:
        return v


class Client(object):
    def __init__(self, kind, where, cache_size):
        self.kind, self.where, self.cache_size = kind, where, cache_size
        self.open()

    def open(self):
        from asl_workflow_engine import store as st
        if self.kind == "json":
            self.store = st.JSONStore(self.where)
        elif self.kind == "simple":
            self.store = st.SimpleStore()
        else:
            if hasattr(st.RedisStore, "connection"):
                del st.RedisStore.connection        # one connection per client process
            cls = st.RedisDictStore if self.kind == "rdict" else st.RedisListStore
            self.store = cls(self.where, "ns", cache_size=self.cache_size, daemon=True)
            self.cid = self.store.redis.client_id()

    def close(self):
        s = getattr(self, "store", None)
        if s is not None and hasattr(s, "stop"):
            try:
                s.stop()
            except Exception:
                pass
        self.store = None


class Model(object):
    """A dict (per sharing domain) + what the file holds."""

    def __init__(self, kind):
        self.kind = kind
        self.shared = {}              # redis kinds: one dict for all clients
        self.private = {}             # client index -> dict (json / simple)
        self.file = {}                # json: what the file holds

    def view(self, c):
        return self.shared if self.kind in ("rdict", "rlist") else self.private.setdefault(c, {})


def absent_ok(kind, got, raised):
    """Reading a key that holds nothing."""
    if kind in ("rdict", "rlist"):
        return raised == "KeyError" or got in ({}, [], None)
    return raised == "KeyError"


def sequence(ctx, k, kind, n_clients, thorough_placements=False):
    rng = ctx.rng("seq", k)
    ctx.count("sequences"); ctx.count("kind:" + kind)
    if n_clients == 2:
        ctx.count("two_client_sequences")
    tmp = tempfile.mkdtemp(prefix="c20-", dir=os.environ.get("LSF_WORK"))
    server = None
    if kind in ("rdict", "rlist"):
        server = fakeredis.SERVERS["c20"] = fakeredis.Server()
        where = "redis://c20:6379"
    else:
        where = os.path.join(tmp, "store.json")
    cache_size = rng.choice([1, 2, 3, 128])
    clients = [Client(kind, where, cache_size) for _ in range(n_clients)]
    model = Model(kind)
    values = LIST_VALUES if kind == "rlist" else DICT_VALUES
    ops_log = []
    nontrivial = False
    n_ops = rng.randint(10, ctx.pick(30, 40))
    dirty = {}            # (client, key) -> the client holds a cached value that an undelivered invalidation still covers
    try:
        for step in range(n_ops):
            c = rng.randrange(n_clients)
            cl = clients[c]
            st = cl.store
            view = model.view(c)
            key = rng.choice(KEYS)
            choices = ["set", "set", "get", "get", "cached", "cached", "delete", "contains", "iterate", "len", "reopen", "ttl"]
            if kind != "rlist":
                choices += ["nested", "nested"]
            if kind in ("rlist", "simple"):
                choices += ["append", "append"]
            if server is not None:
                # cache-heavy mix: reads through the cache race with writes (own and foreign) and with the delivery of their invalidations
                choices += ["inval"] * 3 + ["inval-all"] * 2 + ["cached"] * 5 + ["set"] * 2 + (["nested"] * 2 if kind == "rdict" else ["append"] * 2) + ["flush"]
                if rng.random() < 0.6:
                    key = rng.choice(KEYS[:2])
            op = rng.choice(choices)
            if op in ("cached",) and kind in ("json", "simple") and rng.random() < 0.5:
                op = "get"
            ctx.evaluation(); ctx.count("ops"); ctx.count("op:" + op)
            rec = [op, c, key]
            got, raised = None, None
            wit = lambda extra: dict(extra, kind=kind, clients=n_clients, cache_size=cache_size, ops=ops_log[-25:] + [rec], step=step)

            def pending_for(ci, kk):
                if server is None:
                    return False
                tid = getattr(clients[ci].store, "tracker_id", None)
                return any(t == tid and (keys is None or ("ns:" + kk) in keys) for t, keys in server.pending_invalidations)
            try:
                if op == "set":
                    v = copy.deepcopy(rng.choice(values)); rec.append(v)
                    st[key] = v
                    if v or kind in ("json", "simple"):
                        view[key] = copy.deepcopy(v)
                    else:
                        view.pop(key, None)                  # Redis holds no empty containers
                    if kind == "json":
                        model.file = copy.deepcopy(view)
                elif op == "nested":
                    f, x = rng.choice(FIELDS), copy.deepcopy(rng.choice(ATOMS)); rec += [f, x]
                    if key in view or kind == "rdict":
                        st[key][f] = x
                        view.setdefault(key, {})[f] = x
                        nontrivial = True
                    else:
                        rec.append("skipped: absent")
                elif op == "append":
                    x = copy.deepcopy(rng.choice(ATOMS)); rec.append(x)
                    if key in view and isinstance(view[key], list):
                        st[key].append(x); view[key].append(x)
                    elif kind == "rlist":
                        st[key].append(x); view[key] = [x]
                    else:
                        rec.append("skipped: absent")
                elif op == "get":
                    how = rng.choice(["item", "get"]); rec.append(how)
                    try:
                        got = plain(st[key]) if how == "item" else plain(st.get(key, "DEFAULT"))
                        if got == "DEFAULT":
                            got, raised = None, "KeyError"
                    except KeyError:
                        raised = "KeyError"
                    rec.append(got if raised is None else raised)
                    if key in view:
                        if raised or got != view[key]:
                            ctx.violation("read-differs-from-last-write", wit(dict(got=got, raised=raised, model=view[key])), None)
                    elif not absent_ok(kind, got, raised):
                        ctx.violation("read-of-absent-key-returns-a-value", wit(dict(got=got)), None)
                elif op == "cached":
                    ctx.count("cached_reads")
                    try:
                        got = plain(st.get_cached_view(key))
                    except KeyError:
                        raised = "KeyError"
                    rec.append(got if raised is None else raised)
                    want = view.get(key)
                    stale_ok = pending_for(c, key)
                    if key in view:
                        good = raised is None and got == want
                    else:
                        good = absent_ok(kind, got, raised) or (kind in ("json", "simple") and got is None)
                    if not good:
                        if stale_ok:
                            ctx.count("cached_reads_stale_while_invalidation_pending")
                            nontrivial = True
                        else:
                            ctx.violation("cached-view-stale-after-its-invalidation-was-delivered", wit(dict(got=got, raised=raised, model=want)), None)
                    elif (c, key) in dirty:
                        ctx.count("cached_reads_after_delivery_of_invalidation")
                        dirty.pop((c, key), None)
                    cache = getattr(st, "cache", None)
                    if cache is not None:
                        ctx.count("cache_bound_checks")
                        if len(cache) > cache_size:
                            ctx.violation("cache-exceeds-its-capacity", wit(dict(size=len(cache), capacity=cache_size)), None)
                elif op == "delete":
                    try:
                        del st[key]
                    except KeyError:
                        raised = "KeyError"
                    rec.append(raised)
                    if key in view:
                        if raised:
                            ctx.violation("delete-of-present-key-raised", wit(dict()), None)
                        del view[key]
                    elif raised is None and kind in ("json", "simple"):
                        ctx.violation("delete-of-absent-key-did-not-raise", wit(dict()), None)
                    if kind == "json" and raised is None:
                        model.file = copy.deepcopy(view)
                elif op == "contains":
                    got = key in st; rec.append(got)
                    if got != (key in view):
                        ctx.violation("membership-differs-from-model", wit(dict(got=got, model=key in view)), None)
                elif op == "iterate":
                    got = sorted(st); rec.append(got)
                    if got != sorted(view):
                        ctx.violation("iteration-differs-from-model", wit(dict(got=got, model=sorted(view))), None)
                    items = {kk: plain(vv) for kk, vv in st.items()}
                    if items != view:
                        ctx.violation("items-differ-from-model", wit(dict(got=items, model=view)), None)
                elif op == "len":
                    got = len(st); rec.append(got)
                    if got != len(view):
                        ctx.violation("length-differs-from-model", wit(dict(got=got, model=len(view))), None)
                elif op == "ttl":
                    n = rng.choice([5, 600, 86400]); rec.append(n)
                    st.set_ttl(key, n)
                    if server is not None and key in view and server.ttl.get("ns:" + key) != n:
                        ctx.violation("ttl-not-set-on-the-server", wit(dict(ttl=server.ttl.get("ns:" + key), expected=n)), None)
                elif op == "reopen":
                    ctx.count("reopens"); nontrivial = True
                    cl.close()
                    cl.open()
                    if kind == "json":
                        model.private[c] = copy.deepcopy(model.file)
                    elif kind == "simple":
                        model.private[c] = {}
                    view = model.view(c)
                    items = {kk: plain(vv) for kk, vv in cl.store.items()}
                    if items != view:
                        ctx.violation("reopened-store-differs-from-what-was-written", wit(dict(got=items, model=view)), None)
                    for kk in [kk for (ci, kk) in list(dirty) if ci == c]:
                        dirty.pop((c, kk), None)
                elif op == "inval":
                    if server.pending_invalidations:
                        i = rng.randrange(len(server.pending_invalidations))
                        target, keys = server.pending_invalidations[i]
                        rec += [target, keys]
                        server.deliver_invalidation(i)
                        ctx.count("invalidations_delivered")
                        if server.dead_listeners:
                            ctx.violation("invalidation-listener-died", wit(dict(dead=server.dead_listeners)), None)
                            return
                    else:
                        rec.append("none pending")
                elif op == "flush":
                    # an operator flushes the keyspace: everything is gone for every client; cached views may lag until the (null) invalidation is delivered
                    server.flushdb()
                    for ci in range(n_clients):
                        model.view(ci).clear()
                    ctx.count("keyspace_flushes"); nontrivial = True
                elif op == "inval-all":
                    n = 0
                    while server.pending_invalidations:
                        server.deliver_invalidation(0); n += 1
                        ctx.count("invalidations_delivered")
                    rec.append(n)
                    if server.dead_listeners:
                        ctx.violation("invalidation-listener-died", wit(dict(dead=server.dead_listeners)), None)
                        return
                # bookkeeping: which cached entries are now covered by an undelivered invalidation
                if server is not None:
                    for ci, cc in enumerate(clients):
                        for kk in KEYS:
                            if pending_for(ci, kk):
                                dirty[(ci, kk)] = True
            except Exception as e:
                import traceback
                ctx.violation("store-operation-raised", wit(dict(exception="%s: %s" % (type(e).__name__, e), where=traceback.format_exc()[-500:])), None)
                return
            ops_log.append(rec)
        ctx.distinct("sequences", [kind, n_clients, [[r[0], r[1], r[2]] + [json.dumps(x, sort_keys=True, default=str)[:40] for x in r[3:4]] for r in ops_log]])
        if nontrivial:
            ctx.nontrivial([kind, k])
        if k % 50 == 0:
            ctx.sample(dict(kind=kind, clients=n_clients, ops=ops_log[:20]))
    finally:
        for cl in clients:
            cl.close()
        shutil.rmtree(tmp, ignore_errors=True)


PASS = {"StartAt": "A", "States": {"A": {"Type": "Pass", "End": True}}}
TWO = {"StartAt": "A", "States": {"A": {"Type": "Pass", "Result": {"ünï": [1, 2.5, None]}, "Next": "B"}, "B": {"Type": "Succeed"}}, "Comment": "x"}


def persistence_run(ctx, k):
    rng = ctx.rng("persist", k)
    store = ["json", "redis"][k % 2]
    ctx.evaluation(); ctx.count("persistence_runs"); ctx.count("persist:" + store); ctx.nontrivial(["P", store, k])
    with World(seed=ctx.seed, store=store) as w:
        made = {}
        for i in range(rng.randint(1, 4)):
            d = copy.deepcopy(rng.choice([PASS, TWO]))
            d["Comment"] = "machine %d" % i
            code, body = w.api("CreateStateMachine", {"name": "m%d" % i, "definition": json.dumps(d), "roleArn": ROLE, "type": rng.choice(["STANDARD", "EXPRESS"])})
            if code != 200:
                ctx.violation("create-refused", dict(code=code, body=body), None)
                return
            made[body["stateMachineArn"]] = w.api("DescribeStateMachine", {"stateMachineArn": body["stateMachineArn"]})[1]
        if rng.random() < 0.5 and made:
            arn = rng.choice(sorted(made))
            w.advance(1)
            w.api("UpdateStateMachine", {"stateMachineArn": arn, "definition": json.dumps(TWO)})
            w.drain_instantaneous()         # (delivers the cache invalidation of the Redis store: Describe reads a cached view)
            made[arn] = w.api("DescribeStateMachine", {"stateMachineArn": arn})[1]
        if rng.random() < 0.3 and len(made) > 1:
            arn = rng.choice(sorted(made))
            w.api("DeleteStateMachine", {"stateMachineArn": arn})
            w.drain_instantaneous()
            del made[arn]
        w.restart_engine("i1")
        after = {}
        code, body = w.api("ListStateMachines", {})
        listed = sorted(m["stateMachineArn"] for m in body.get("stateMachines", [])) if isinstance(body, dict) else body
        for arn in made:
            after[arn] = w.api("DescribeStateMachine", {"stateMachineArn": arn})[1]
        if listed != sorted(made) or after != made:
            ctx.violation("definitions-differ-after-restart", dict(store=store, before=made, after=after, listed=listed), None)
        # and they still run
        for arn, m in made.items():
            if m.get("type") == "STANDARD":
                code, body = w.api("StartExecution", {"stateMachineArn": arn, "name": "after-restart", "input": "{}"})
                w.run()
                if w.outcome(body["executionArn"])[0] != "SUCCEEDED":
                    ctx.violation("definition-unusable-after-restart", dict(store=store, arn=arn, outcome=w.outcome(body["executionArn"])[:3]), None)
                break


def corrupt_file_run(ctx, k):
    ctx.evaluation(); ctx.count("corrupt_file_starts")
    GARBAGE = ["{not json", "", "[1, 2", "\x00\x01\x02", "null", b"\xff\xfe\x00binary\x80\x81", '{"a": "caf\u00e9"}'.encode("utf-16"), '{"Comment": "na\u00efve"}'.encode("utf-8")[:-4],
               b"\x80", '{"a": "\u00e9"}'.encode("latin-1")]
    garbage = GARBAGE[k % len(GARBAGE)]
    ctx.count("corrupt_file_kind:" + ("text" if isinstance(garbage, str) else "bytes that are not UTF-8"))
    with World(seed=ctx.seed, store="json") as w:
        w.api("CreateStateMachine", {"name": "m", "definition": json.dumps(PASS), "roleArn": ROLE})
        w.crash_engine("i1")
        with open(w.store_url, "w" if isinstance(garbage, str) else "wb") as f:
            f.write(garbage)
        garbage = garbage if isinstance(garbage, str) else garbage.hex()
        try:
            w.start_engine("i1")
        except BaseException as e:
            ctx.violation("unreadable-store-file-crashes-the-start", dict(content=garbage, exception="%s: %s" % (type(e).__name__, e)), None)
            return
        code, body = w.api("ListStateMachines", {})
        if code != 200 or body.get("stateMachines") != []:
            ctx.violation("unreadable-store-file-did-not-start-empty", dict(content=garbage, code=code, body=body), None)
            return
        code, body = w.api("CreateStateMachine", {"name": "m2", "definition": json.dumps(PASS), "roleArn": ROLE})
        if code != 200:
            ctx.violation("store-unusable-after-unreadable-file", dict(content=garbage, code=code, body=body), None)


def ttl_run(ctx, k):
    ttl = [600, 45, 86400][k % 3]
    ctx.evaluation(); ctx.nontrivial(["T", ttl])
    with World(seed=ctx.seed, store="redis", execution_ttl=ttl) as w:
        arn = w.create_machine("m", {"StartAt": "A", "States": {"A": {"Type": "Pass", "Next": "W"}, "W": {"Type": "Wait", "Seconds": 1, "End": True}}})
        names = ["e%d" % i for i in range(3)]
        for n in names:
            w.start_event(arn, n, {"x": 1})
        w.run()
        for n in names:
            ea = arn.replace(":stateMachine:", ":execution:") + ":" + n
            for prefix in ("executions:", "execution_history:"):
                ctx.count("ttl_keys_checked")
                key = prefix + ea
                if key not in w.redis.data:
                    ctx.violation("execution-record-missing-on-the-server", dict(key=key, keys=sorted(w.redis.data)[:10]), None)
                elif w.redis.ttl.get(key) != ttl:
                    ctx.violation("execution-record-without-the-configured-ttl", dict(key=key, ttl=w.redis.ttl.get(key), expected=ttl), None)


def run(ctx):
    i = 0
    kinds = ["json", "simple", "rdict", "rdict", "rlist", "rdict"]
    for k in range(ctx.pick(420, 80000)):
        i += 1
        if not ctx.mine(i):
            continue
        kind = kinds[k % len(kinds)]
        n_clients = 2 if (kind in ("rdict", "rlist") and (k // len(kinds)) % 2 == 0) else 1
        sequence(ctx, k, kind, n_clients)
    for k in range(ctx.pick(16, 600)):
        i += 1
        if ctx.mine(i):
            persistence_run(ctx, k)
    for k in range(ctx.pick(10, 20)):
        i += 1
        if ctx.mine(i):
            corrupt_file_run(ctx, k)
    for k in range(ctx.pick(3, 12)):
        i += 1
        if ctx.mine(i):
            ttl_run(ctx, k)


def witnesses(ctx):
    pass


def replay(ctx, doc):
    print(json.dumps(doc["witness"], indent=1, default=str)[:5000])
