"""
C14  Choice rules compare by type and combine like Boolean logic.

Oracle: reference rule evaluator (ref/asl.py: eval_rule, written from the States Language text) run beside the
real Choice-state handler: each case is a one-Choice machine executed by the real StateEngine; which Next was
taken is read from the output of marker Pass states.
"""
import json, itertools, copy
from lsfverif.ref import asl as R
from lsfverif.sim import mini

ID = "C14"
ENGINE = "mini"
LEVEL = "exploration"
RULE = ("case = (rule tree, input document); quick: all 23 value operators x 14 variable values x 14 constants, all 16 *Path operators "
        "x 14 x 14, And/Or/Not trees of depth<=2 over a leaf pool, rule orderings with/without Default; thorough adds random trees of "
        "depth<=4 and random StringMatches patterns.  non-trivial = tree depth>=1, or operand/variable of a type the operator is not "
        "defined for, or a *Path operator; distinct by canonical JSON of (rules, input)")
ASSUMPTIONS = ["reference evaluator follows states-language.net 'Choice State'; Is* (other than IsPresent) on a missing Variable and "
               "non-boolean Is* operands are unspecified and skipped", "executed through the mini harness (real StateEngine, in-process FIFO dispatcher)"]
FLOORS = {"evaluations": 3000, "compared": 3000, "nontrivial": 1000, "took_rule": 300, "took_default": 300}
SHARDS = {"quick": 8, "thorough": 16}

TS = "2020-01-01T00:00:00Z"
VALS = collections = None
import collections
VALS = collections.OrderedDict([("missing", None), ("null", None), ("0", 0), ("1", 1), ("1.5", 1.5), ("false", False), ("true", True),
                                ("empty", ""), ("a", "a"), ("A", "A"), ("ts", TS), ("ts_off", "2020-01-01T05:30:00+05:30"),
                                ("badts", "2020-13-01T00:00:00Z"), ("list", []), ("obj", {})])
CONSTS = [None, 0, 1, 1.5, False, True, "", "a", "A", "a*", TS, "2020-01-01T05:30:00+05:30", "2019-12-31T19:15:00-04:45", [], {}]
VALUE_OPS = [k + r for k in ("String", "Numeric", "Timestamp") for r in R._CMP] + ["BooleanEquals", "StringMatches"]
IS_OPS = ["IsNull", "IsPresent", "IsNumeric", "IsString", "IsBoolean", "IsTimestamp"]
PATH_OPS = R.PATH_OPERATORS


def machine(rules, default=True):
    st = {"Type": "Choice", "Choices": rules}
    if default:
        st["Default"] = "D"
    states = {"C": st, "D": {"Type": "Pass", "Result": "D", "End": True}}
    for r in rules:
        states[r["Next"]] = {"Type": "Pass", "Result": r["Next"], "End": True}
    return {"StartAt": "C", "States": states}


def reference(rules, default, data):
    for r in rules:
        if R.eval_rule(r, data, {}):
            return ("SUCCEEDED", r["Next"])
    return ("SUCCEEDED", "D") if default else ("FAILED", "States.NoChoiceMatched")


def engine(rules, default, data):
    res = mini.run(machine(rules, default), data)
    if res["status"] == "SUCCEEDED":
        return ("SUCCEEDED", res["output"])
    return (res["status"], res["error"])


def depth(rule):
    if "And" in rule:
        return 1 + max(depth(r) for r in rule["And"])
    if "Or" in rule:
        return 1 + max(depth(r) for r in rule["Or"])
    if "Not" in rule:
        return 1 + depth(rule["Not"])
    return 0


def leaves(rule):
    if "And" in rule or "Or" in rule:
        for r in rule.get("And", rule.get("Or")):
            yield from leaves(r)
    elif "Not" in rule:
        yield from leaves(rule["Not"])
    else:
        yield rule


def leaf_mechanism(leaf, data):
    """Known-finding predicate for one comparison leaf that the engine decides differently from the reference."""
    ops = [k for k in leaf if k not in ("Variable", "Next")]
    if len(ops) != 1:
        return None
    op, val = ops[0], leaf[ops[0]]
    if op.endswith("Path"):
        try:
            val = R.apply_path(data, {}, val)
        except (R.NoMatch, R.Unspecified):
            val = None
        op = op[:-4]
    try:
        R.apply_path(data, {}, leaf["Variable"]); missing = False
    except R.NoMatch:
        missing = True
    if op == "BooleanEquals" and missing and val is False:
        return "choice-booleanequals-false-missing"
    if op == "StringMatches" and isinstance(val, str) and any(c in val for c in "?[]\\"):
        return "choice-stringmatches-metachar"
    if op.startswith("Timestamp") or op == "IsTimestamp":
        return "rfc3339-minute-offset"
    return None


def classify(rules, data):
    """A disagreement is attributed to a finding iff every leaf that the engine decides differently (alone)
    satisfies that finding's predicate."""
    mechs = set()
    for r in rules:
        for leaf in leaves(r):
            lf = dict(leaf, Next="Y")
            try:
                exp = reference([lf], True, data)
            except R.Unspecified:
                continue
            if engine([lf], True, data) != exp:
                m = leaf_mechanism(leaf, data)
                if m is None:
                    return None
                mechs.add(m)
    return mechs.pop() if len(mechs) == 1 else None


def compare(ctx, rules, default, data, tag):
    ctx.evaluation()
    try:
        exp = reference(rules, default, data)
    except R.Unspecified as u:
        ctx.count("unspecified")
        return
    got = engine(rules, default, data)
    ctx.count("compared")
    ctx.count("took_default" if exp[1] == "D" else "took_nomatch" if exp[0] == "FAILED" else "took_rule")
    case = dict(rules=rules, default=default, input=data)
    nontriv = any(depth(r) >= 1 for r in rules) or tag in ("wrongtype", "path") or len(rules) > 1
    if nontriv:
        ctx.nontrivial(case)
    ctx.distinct("cases", case)
    if ctx.counters["compared"] % 997 == 1:
        ctx.sample(dict(case, expected=exp, engine=got))
    if got != exp:
        ctx.violation("choice-disagrees-with-reference", dict(case, expected=exp, engine=got, family=tag), classify(rules, data))


def wrong_type(op, var, const):
    kind = "String" if op.startswith("String") else "Numeric" if op.startswith("Numeric") else "Boolean" if op.startswith("Boolean") else "Timestamp"
    ok = {"String": lambda x: isinstance(x, str), "Numeric": R.is_num, "Boolean": lambda x: isinstance(x, bool),
          "Timestamp": lambda x: isinstance(x, str)}[kind]
    return not ok(var) or not ok(const)


LEAF_POOL = [{"Variable": "$.v", "IsPresent": True}, {"Variable": "$.v", "NumericGreaterThan": 0}, {"Variable": "$.v", "StringEquals": "a"},
             {"Variable": "$.v", "BooleanEquals": True}, {"Variable": "$.w", "StringLessThan": "b"}, {"Variable": "$.v", "IsNull": True},
             {"Variable": "$.nope", "StringEquals": "a"}, {"Variable": "$.v", "NumericEqualsPath": "$.n"}, {"Variable": "$.v", "StringMatches": "a*"},
             {"Variable": "$.v", "TimestampLessThanEquals": TS}, {"Variable": "$.v", "IsString": False}]
TREE_DATA = [{"v": 1, "w": "a", "n": 1}, {"v": "a", "w": "c", "n": 2}, {"v": None, "w": "a", "n": 0}, {"w": "a"}, {"v": True, "w": "", "n": 1},
             {"v": TS, "w": "b", "n": 3}, {"v": 0, "w": "a", "n": 0}]


def gen_tree(rng, d, pool=LEAF_POOL):
    if d <= 0 or rng.random() < 0.3:
        return copy.deepcopy(rng.choice(pool))
    c = rng.random()
    if c < 0.35:
        return {"And": [gen_tree(rng, d - 1, pool) for _ in range(rng.randint(1, 3))]}
    if c < 0.7:
        return {"Or": [gen_tree(rng, d - 1, pool) for _ in range(rng.randint(1, 3))]}
    return {"Not": gen_tree(rng, d - 1, pool)}


def run(ctx):
    i = 0
    # 1. every value operator x every variable value x every constant
    for vname, v in VALS.items():
        data = {"w": "a"} if vname == "missing" else {"v": v, "w": "a"}
        for op in VALUE_OPS:
            for c in CONSTS:
                i += 1
                if not ctx.mine(i):
                    continue
                tag = "wrongtype" if vname == "missing" or wrong_type(op, v, c) else "typed"
                compare(ctx, [{"Variable": "$.v", op: c, "Next": "Y"}], True, data, tag)
        for op in IS_OPS:
            for c in (True, False):
                i += 1
                if ctx.mine(i):
                    compare(ctx, [{"Variable": "$.v", op: c, "Next": "Y"}], True, data, "is")
        # 2. *Path operators: the constant lives in the document ($.c), or the path matches nothing
        for op in PATH_OPS:
            for c in CONSTS + ["<nopath>"]:
                i += 1
                if not ctx.mine(i):
                    continue
                d2 = dict(data)
                if c != "<nopath>":
                    d2["c"] = c
                compare(ctx, [{"Variable": "$.v", op: "$.c", "Next": "Y"}], True, d2, "path")
    # 2b. the Variable (and the *Path operand) may be a Context Object path: $$.Execution.Input.v is the same value as $.v in the first state, so every
    #     rule must decide exactly as its '$.v' twin does according to the reference (null, missing, false and 0 included)
    def ctxify(x):
        if isinstance(x, dict):
            return {k: (("$$.Execution.Input" + v[1:]) if k in ("Variable",) or k.endswith("Path") and isinstance(v, str) and v.startswith("$.") else ctxify(v)) for k, v in x.items()}
        if isinstance(x, list):
            return [ctxify(y) for y in x]
        return x
    for vname, v in VALS.items():
        data = {"w": "a", "c": 1} if vname == "missing" else {"v": v, "w": "a", "c": 1}
        leaves_ = [{"Variable": "$.v", op: c} for op in IS_OPS for c in (True, False)] + [{"Variable": "$.v", "NumericEquals": 0}, {"Variable": "$.v", "BooleanEquals": False},
                                                                                          {"Variable": "$.v", "StringEquals": ""}, {"Variable": "$.w", "StringEqualsPath": "$.v"},
                                                                                          {"Variable": "$.c", "NumericEqualsPath": "$.v"}]
        for leaf in leaves_:
            for wrap in (lambda x: x, lambda x: {"Not": x}, lambda x: {"And": [x, {"Variable": "$.w", "IsPresent": True}]}, lambda x: {"Or": [x, {"Variable": "$.nope", "IsPresent": True}]}):
                i += 1
                if not ctx.mine(i):
                    continue
                rule = dict(wrap(copy.deepcopy(leaf)), Next="Y")
                try:
                    want = reference([rule], True, data)
                except R.Unspecified:
                    ctx.count("unspecified"); continue
                crule = ctxify(rule)
                got = engine([crule], True, data)
                ctx.evaluation(); ctx.count("compared"); ctx.count("context_path_variables")
                ctx.nontrivial(dict(rules=[crule], input=data))
                if got != want:
                    # (is the '$.v' twin decided correctly by the engine?  if not, the disagreement is the twin's, with its own attribution)
                    twin = engine([rule], True, data)
                    ctx.violation("choice-disagrees-with-reference", dict(rules=[crule], default=True, input=data, expected=want, engine=got, family="context-path-variable",
                                                                         same_rule_on_state_input=twin), classify([rule], data) if twin != want else None)
    # 3. And/Or/Not: exhaustive small trees over the leaf pool
    small = []
    for a, b in itertools.product(LEAF_POOL[:7], repeat=2):
        small += [{"And": [a, b]}, {"Or": [a, b]}, {"Not": {"And": [a, b]}}, {"And": [a, {"Not": b}]}, {"Or": [{"Not": a}, b]}]
    for a in LEAF_POOL:
        small += [{"Not": a}, {"Not": {"Not": a}}, {"And": [a]}, {"Or": [a]}]
    for t in small:
        for data in TREE_DATA:
            i += 1
            if ctx.mine(i):
                compare(ctx, [dict(copy.deepcopy(t), Next="Y")], True, data, "tree")
    # 4. rule orderings, first match wins, Default / NoChoiceMatched
    for k, (a, b, c) in enumerate(itertools.permutations(LEAF_POOL[:6], 3)):
        if k % 3:
            continue
        for data in TREE_DATA[:5]:
            for default in (True, False):
                i += 1
                if ctx.mine(i):
                    compare(ctx, [dict(a, Next="R1"), dict(b, Next="R2"), dict(c, Next="R3")], default, data, "order")
    # 5. StringMatches patterns over the documented alphabet (quick: small exhaustive; thorough: random longer)
    alpha = ["a", "b", "*", "\\*", "\\\\", ".", "?", "[", "]"]
    subjects = ["", "a", "ab", "a*b", "a.b", "ba", "a\\b", "a?b", "a[b]", "*", "\\", "\\\\", "a\\\\b", "\\*"]
    pats = ["".join(p) for n in range(0, 4) for p in itertools.product(alpha, repeat=n)]
    stride = 1 if not ctx.quick else 3
    for k, p in enumerate(pats):
        if k % stride and not ("\\" in p and "*" not in p.replace("\\*", "")):
            continue        # (patterns with escapes and no wildcard are all kept: the escape must be decoded whether or not there is a wildcard)
        for s in subjects:
            i += 1
            if ctx.mine(i):
                compare(ctx, [{"Variable": "$.v", "StringMatches": p, "Next": "Y"}], True, {"v": s}, "wrongtype" if "\\" in p else "typed")
    # 6. random deeper trees
    n_random = ctx.pick(3000, 1600000)
    for k in range(n_random):
        i += 1
        if not ctx.mine(i):
            continue
        rng = ctx.rng("tree", k)
        rules = [dict(gen_tree(rng, ctx.pick(3, 4)), Next="R%d" % j) for j in range(rng.randint(1, 3))]
        compare(ctx, rules, rng.random() < 0.7, rng.choice(TREE_DATA), "tree")


WITNESSES = {
    "choice-booleanequals-false-missing": ([{"Variable": "$.v", "BooleanEquals": False, "Next": "Y"}], True, {}),
    "choice-stringmatches-metachar": ([{"Variable": "$.v", "StringMatches": "a?c", "Next": "Y"}], True, {"v": "abc"}),
    "rfc3339-minute-offset": ([{"Variable": "$.v", "TimestampEquals": "2020-01-01T05:30:00+05:30", "Next": "Y"}], True, {"v": TS}),
}


def witnesses(ctx):
    """The minimal witnesses of the (repaired) defects are ordinary cases: if one disagrees again it is a violation."""
    for fid, (rules, default, data) in WITNESSES.items():
        compare(ctx, rules, default, data, "regression:" + fid)
        ctx.count("regression_witnesses")


def replay(ctx, doc):
    w = doc["witness"]
    compare(ctx, w["rules"], w["default"], w["input"], w.get("family", "replay"))
    print("expected", reference(w["rules"], w["default"], w["input"]), "engine", engine(w["rules"], w["default"], w["input"]))


TECHNIQUE = "reference-model monitor (differential oracle) over the real Choice handler; exhaustive small alphabet + random rule trees"
LEVEL_TEXT = ("Every comparison operator x every JSON type of variable and operand, And/Or/Not trees, rule order and Default are executed by the "
              "real StateEngine and compared with an independent evaluator written from the specification; quick is exhaustive over the small "
              "alphabet, thorough adds 200k random trees. Held = no disagreement on what was run.")
LEVEL_NOTE = "trusts the 120-line reference evaluator (ref/asl.py eval_rule) and the mini harness (in-process dispatcher); unspecified cases are skipped, not judged"
DESIGN_REF = "DESIGN.md section 6, C14"
