#!/bin/sh
# Offline set-up: put icontract beside the repo's interpreter in a checkout-relative directory.
cd "$(dirname "$0")"
if [ ! -d .deps/icontract ]; then
  /venv/bin/pip install --quiet --no-index --find-links /opt/veriftools/wheels --target .deps icontract asttokens >/dev/null 2>&1 || \
  /venv/bin/pip install --no-index --find-links /opt/veriftools/wheels --target .deps icontract
fi
/venv/bin/python -c "import sys; sys.path.insert(0,'.deps'); import icontract; print('icontract', icontract.__version__)"
