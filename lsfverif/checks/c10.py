"""
C10  The state-machine and execution API behaves like a simple keyed store.

A reference model (two dicts: state machines by ARN, executions by ARN) is run beside the real REST handlers (Quart and Flask front ends,
JSON-file and Redis stores, validation on/off).  For every call of a generated sequence the oracle decides

  R  the response class: the set of admissible error types (any of them when several arguments are wrong) or success, and on success the body
  S  the store after the call equals the model (read straight from asl_store / executions, not through the API)
  E  a call answered with an error left both stores exactly as they were
  I  no call is answered with an internal error (HTTP 5xx / "InternalError")

Where the property leaves a choice (a JSON-valid definition that is no state machine when validation is off, an unknown statusFilter, EXPRESS
execution records) the model follows what the implementation answered and only demands consistency afterwards.
"""
import json, copy, re
from lsfverif.sim.world import World, EPOCH0, ROLE, ACCOUNT

ID = "C10"
ENGINE = "simworld"
LEVEL = "exploration"
RULE = ("case = call sequence of 6..30 API calls over a pool of 3 machine names x 3 roles, ~14 definitions, ~12 logging configurations, well-formed / unknown / malformed "
        "ARNs and wrongly typed arguments; every sequence on one of (asyncio|blocking front end) x (json|redis store) x (validate_asl on|off); non-trivial = a sequence "
        "with at least one refused and one accepted mutation; distinct by the sequence of (action, argument classes)")
ASSUMPTIONS = ["when several arguments are wrong any of the corresponding documented error types is admissible",
               "a JSON-valid definition that is not a state machine may be stored or refused when validate_asl is off; it must be refused when it is on",
               "execution records of EXPRESS machines and executions of definitions that are no state machine are not compared",
               "virtual time advances 1 s between calls (so updateDate must strictly advance)"]
FLOORS = {"evaluations": 3000, "sequences": 150, "calls": 3000, "responses:ok": 800, "responses:error": 1000, "store_comparisons": 3000, "error_left_store_unchanged_checks": 1000,
          "sequences_with_populated_prelude": 40, "front:asyncio": 40, "front:blocking": 40, "store:redis": 30, "store:json": 30, "nontrivial": 100,
          "action:CreateStateMachine": 300, "action:UpdateStateMachine": 300, "action:DeleteStateMachine": 100, "action:DescribeStateMachine": 150,
          "action:DescribeStateMachineForExecution": 80, "action:ListStateMachines": 80, "action:StartExecution": 200, "action:DescribeExecution": 100,
          "action:ListExecutions": 100}
SHARDS = {"quick": 16, "thorough": 16}
TECHNIQUE = "reference-model monitor (dict model beside the real REST handlers) over generated call histories, with direct store snapshots before/after every call"
LEVEL_TEXT = ("Every response of every generated call sequence is compared with a two-dictionary reference model and the stores are read directly after each call; "
              "held = all responses admissible, stores equal to the model, error responses side-effect free, no internal error, up to the listed findings.")
LEVEL_NOTE = "sequences are sampled, not enumerated; nextToken/maxResults paging is not implemented by the repository and not exercised"
DESIGN_REF = "DESIGN.md section 6, C10"

PASS = {"StartAt": "A", "States": {"A": {"Type": "Pass", "End": True}}}
PASS2 = {"StartAt": "B", "States": {"B": {"Type": "Pass", "Result": {"v": 2}, "End": True}}, "Comment": "second"}
FAIL = {"StartAt": "F", "States": {"F": {"Type": "Fail", "Error": "E", "Cause": "c"}}}
WAIT = {"StartAt": "W", "States": {"W": {"Type": "Wait", "Seconds": 300, "End": True}}}
ROLES = [ROLE, "arn:aws:iam::%s:role/other" % ACCOUNT, "arn:aws:iam::999:role/r"]
BAD_ROLES = ["", "arn:aws:iam::x:role/r", "role", 5, None, "arn:aws:iam::1:role/" + "r" * 260, ["r"]]
NAMES = ["m1", "m1x", "m2"]      # (one name is a prefix of another: keys must not be matched by prefix)
BAD_NAMES = ["", "bad name", "a/b", "x" * 81, "t\tab", 5, None, ["l"], "a:b", "q?"]
ERR_NAME = re.compile(r"[\s<>{}\[\]?*\"#%\\^|~`$&,;:/\x00-\x1f\x7f-\x9f]")
STATUSES = ["RUNNING", "SUCCEEDED", "FAILED", "TIMED_OUT", "ABORTED"]

# (label, value as sent, class)   class: asl | json-not-asl | not-json | not-string | empty | dupkeys
DEFINITIONS = [("pass", json.dumps(PASS), "asl"), ("pass2", json.dumps(PASS2), "asl"), ("fail", json.dumps(FAIL), "asl"), ("wait", json.dumps(WAIT), "asl"),
               ("notjson", "{not json", "not-json"), ("emptystr", "", "empty"), ("five", "5", "json-not-asl"), ("emptyobj", "{}", "json-not-asl"),
               ("nostates", '{"StartAt": "A"}', "json-not-asl"), ("null", "null", "json-not-asl"), ("object", {"StartAt": "A"}, "not-string"), ("number", 5, "not-string"),
               ("list", ["x"], "not-string"),
               ("dupkeys", '{"StartAt": "A", "StartAt": "A", "States": {"A": {"Type": "Pass", "End": true}}}', "dupkeys")]
# (value, valid?)
LOGGING = [({}, True), ({"level": "OFF"}, True), ({"level": "ALL", "destinations": [{"cloudWatchLogsLogGroup": {"logGroupArn": "x"}}]}, True),
           ({"level": "ERROR", "destinations": [{}], "includeExecutionData": True}, True), ({"level": "ALL"}, False), ({"level": "LOUD"}, False),
           ({"level": "ERROR", "destinations": []}, False), ({"level": "FATAL", "destinations": "x"}, False), ({"level": "ALL", "destinations": [{}, {}]}, False),
           ("str", False), ([1], False), (5, False), ({"level": 5}, False), ({"level": None}, False)]


def valid_name(n):
    return isinstance(n, str) and 0 < len(n) <= 80 and not ERR_NAME.search(n)


def valid_role(a):
    return isinstance(a, str) and 0 < len(a) <= 256 and re.search(r"^arn:aws:iam::[0-9]+:role/.+$", a) is not None


def valid_sm_arn(a):
    return isinstance(a, str) and 0 < len(a) <= 256 and re.search(r"^arn:aws:states:.+:[0-9]+:stateMachine:.+$", a) is not None


def valid_ex_arn(a):
    return isinstance(a, str) and 0 < len(a) <= 256 and re.search(r"^arn:aws:states:.+:[0-9]+:execution:.+$", a) is not None


def sm_arn(role, name):
    return "arn:aws:states:local:%s:stateMachine:%s" % (role.split(":")[4], name)


class _Missing(object):
    def __repr__(self):
        return "<missing>"

    def __bool__(self):
        return False


MISSING = _Missing()
ANY4XX = "<any 4xx>"


class Expect(object):
    def __init__(self, errors=(), may_succeed=True, on_success=None, note=None):
        self.errors, self.may_succeed, self.on_success, self.note = set(errors), may_succeed, on_success, note


class Model(object):
    """Two dictionaries.  Every method returns an Expect; on_success(body, now) -> [mismatch...] applies the update."""

    def __init__(self, front, validate_asl):
        self.machines, self.executions = {}, {}
        self.logging = front == "asyncio"
        self.validate_asl = validate_asl and front == "asyncio"        # the blocking front end has no validator
        self.uncertain_exec = set()

    # -- argument judgement helpers
    def arn_errors(self, p, key, valid, unknown_type, table):
        a = p.get(key, MISSING) if isinstance(p, dict) else MISSING
        if a is MISSING or a is None or a == "" or (not isinstance(a, str) and not a):
            return {"MissingRequiredParameter"}, None
        if not valid(a):
            return {"InvalidArn"}, None
        if a not in table:
            return {unknown_type}, None
        return set(), a

    def definition_errors(self, d, required):
        """-> (errors, may_succeed, parsed)"""
        if d is MISSING or d is None:
            return ({"InvalidDefinition", "MissingRequiredParameter"} if required else set()), not required, MISSING
        if not isinstance(d, str):
            return {"InvalidDefinition"}, False, MISSING
        if d == "":
            return ({"InvalidDefinition", "MissingRequiredParameter"} if required else set()), not required, MISSING
        try:
            seen_dup = []

            def hook(pairs):
                keys = [k for k, _ in pairs]
                if len(set(keys)) != len(keys):
                    seen_dup.append(1)
                return dict(pairs)
            parsed = json.loads(d, object_pairs_hook=hook)
        except ValueError:
            return {"InvalidDefinition"}, False, MISSING
        is_asl = isinstance(parsed, dict) and isinstance(parsed.get("States"), dict) and "StartAt" in parsed and not seen_dup
        if is_asl:
            return set(), True, parsed
        # JSON but no state machine (or duplicate keys): must be refused under validation, either way otherwise
        errs = {"InvalidDefinition", "MissingRequiredParameter"}
        return errs, not self.validate_asl, parsed

    def logging_errors(self, p):
        if not self.logging or "loggingConfiguration" not in p:
            return set()
        lc = p["loggingConfiguration"]
        if isinstance(lc, dict) and not lc:
            return set()
        if not isinstance(lc, dict):
            return {"InvalidLoggingConfiguration"}
        level = lc.get("level", "OFF")
        if not isinstance(level, str) or level not in ("OFF", "ALL", "ERROR", "FATAL"):
            return {"InvalidLoggingConfiguration"}
        if level != "OFF":
            d = lc.get("destinations")
            if not (isinstance(d, list) and len(d) == 1):
                return {"InvalidLoggingConfiguration"}
        return set()

    # -- actions
    def CreateStateMachine(self, p, now):
        errs, may = set(), True
        name, role, typ = p.get("name", MISSING), p.get("roleArn", MISSING), p.get("type", MISSING)
        if not valid_name(name):
            errs |= {"InvalidName"} | ({"MissingRequiredParameter"} if name in (MISSING, None, "") else set()); may = False
        if not valid_role(role):
            errs |= {"InvalidArn"} | ({"MissingRequiredParameter"} if role in (MISSING, None, "") else set()); may = False
        if typ is not MISSING and (not isinstance(typ, str) or typ not in ("STANDARD", "EXPRESS")):
            errs |= {"StateMachineTypeNotSupported"}; may = False
        arn = sm_arn(role, name) if valid_name(name) and valid_role(role) else None
        if arn in self.machines:
            errs |= {"StateMachineAlreadyExists"}; may = False
        de, dmay, parsed = self.definition_errors(p.get("definition", MISSING), True)
        errs |= de; may = may and dmay
        le = self.logging_errors(p)
        errs |= le; may = may and not le

        def ok(body):
            bad = []
            if not isinstance(body, dict) or body.get("stateMachineArn") != arn:
                bad.append("stateMachineArn %r != %r" % (body.get("stateMachineArn") if isinstance(body, dict) else body, arn))
            if isinstance(body, dict) and body.get("creationDate") != now:
                bad.append("creationDate %r != now %r" % (body.get("creationDate"), now))
            rec = {"creationDate": now, "definition": parsed, "name": name, "roleArn": role, "stateMachineArn": arn, "updateDate": now, "status": "ACTIVE",
                   "type": "STANDARD" if typ is MISSING else typ}
            if self.logging:
                lc = copy.deepcopy(p.get("loggingConfiguration", {}))
                lc.setdefault("level", "OFF")
                rec["loggingConfiguration"] = lc
            self.machines[arn] = rec
            return bad
        return Expect(errs, may, ok)

    def DescribeStateMachine(self, p, now):
        errs, arn = self.arn_errors(p, "stateMachineArn", valid_sm_arn, "StateMachineDoesNotExist", self.machines)

        def ok(body):
            want = dict(self.machines[arn])
            got = dict(body) if isinstance(body, dict) else {"<body>": body}
            try:
                got["definition"] = json.loads(got.get("definition"))
            except (TypeError, ValueError):
                return ["definition is not a JSON string: %r" % (got.get("definition"),)]
            return [] if got == want else ["described record differs: %s" % diff(want, got)]
        return Expect(errs, not errs, ok)

    def UpdateStateMachine(self, p, now):
        errs, arn = self.arn_errors(p, "stateMachineArn", valid_sm_arn, "StateMachineDoesNotExist", self.machines)
        may = not errs
        role = p.get("roleArn", MISSING)
        role_given = role is not MISSING and bool(role)
        if role_given and not valid_role(role):
            errs |= {"InvalidArn"}; may = False
        d = p.get("definition", MISSING)
        de, dmay, parsed = self.definition_errors(d, False)
        def_given = parsed is not MISSING or (d is not MISSING and bool(d))
        errs |= de; may = may and dmay
        if not role_given and not def_given:
            errs |= {"MissingRequiredParameter"}; may = False
        le = self.logging_errors(p)
        errs |= le; may = may and not le

        def ok(body):
            bad = []
            rec = self.machines[arn]
            if not isinstance(body, dict) or body.get("updateDate") != now:
                bad.append("updateDate %r != now %r" % (body.get("updateDate") if isinstance(body, dict) else body, now))
            if not now > rec["updateDate"]:
                bad.append("updateDate did not advance")
            if role_given:
                rec["roleArn"] = role
            if parsed is not MISSING:
                rec["definition"] = parsed
            if self.logging and isinstance(p.get("loggingConfiguration"), dict) and p["loggingConfiguration"]:
                lc = copy.deepcopy(p["loggingConfiguration"]); lc.setdefault("level", "OFF")
                rec["loggingConfiguration"] = lc
            rec["updateDate"] = now
            return bad
        return Expect(errs, may, ok)

    def DeleteStateMachine(self, p, now):
        errs, arn = self.arn_errors(p, "stateMachineArn", valid_sm_arn, "StateMachineDoesNotExist", self.machines)

        def ok(body):
            del self.machines[arn]
            return [] if body in ("", None, {}) else ["unexpected body %r" % (body,)]
        return Expect(errs, not errs, ok)

    def ListStateMachines(self, p, now):
        def ok(body):
            want = sorted(([r["stateMachineArn"], r["name"], r["type"], r["creationDate"]] for r in self.machines.values()))
            try:
                got = sorted(([r["stateMachineArn"], r["name"], r["type"], r["creationDate"]] for r in body["stateMachines"]))
            except Exception:
                return ["malformed list body %r" % (body,)]
            return [] if got == want else ["listed %r, live set %r" % (got, want)]
        return Expect((), True, ok)

    def StartExecution(self, p, now):
        errs, arn = self.arn_errors(p, "stateMachineArn", valid_sm_arn, "StateMachineDoesNotExist", self.machines)
        may = not errs
        name = p.get("name", MISSING)
        if name is not MISSING and not valid_name(name):
            errs |= {"InvalidName"}; may = False
        inp = p.get("input", MISSING)
        parsed_in = {}
        if inp is not MISSING:
            if not isinstance(inp, str):
                errs |= {"InvalidExecutionInput"}; may = False
            else:
                try:
                    parsed_in = json.loads(inp)
                except ValueError:
                    errs |= {"InvalidExecutionInput"}; may = False
        exarn = None
        dup = False
        if arn and name is not MISSING and valid_name(name):
            exarn = arn.replace(":stateMachine:", ":execution:") + ":" + name
            if exarn in self.executions or exarn in self.uncertain_exec:
                dup = True
                errs |= {"ExecutionAlreadyExists"}
                # AWS: idempotent for a RUNNING execution with the same input; otherwise refused
                old = self.executions.get(exarn)
                may = may and bool(old) and old["status"] == "RUNNING" and old["input"] == parsed_in

        def ok(body):
            bad = []
            ea = body.get("executionArn") if isinstance(body, dict) else None
            if exarn and ea != exarn:
                bad.append("executionArn %r != %r" % (ea, exarn))
            if not exarn:
                if not (isinstance(ea, str) and ea.startswith(arn.replace(":stateMachine:", ":execution:") + ":")):
                    bad.append("executionArn %r does not belong to %r" % (ea, arn))
            if isinstance(body, dict) and body.get("startDate") != now:
                bad.append("startDate %r != now %r" % (body.get("startDate"), now))
            if not isinstance(ea, str):
                return bad
            m = self.machines[arn]
            d = m["definition"]
            first = d["States"].get(d.get("StartAt")) if isinstance(d, dict) and isinstance(d.get("States"), dict) else None
            t = first.get("Type") if isinstance(first, dict) else None
            if dup or m["type"] != "STANDARD" or t not in ("Pass", "Fail", "Wait"):     # (two runs now share one record: not compared further)
                self.uncertain_exec.add(ea); self.executions.pop(ea, None)
                return bad
            rec = {"executionArn": ea, "name": ea.rsplit(":", 1)[1], "stateMachineArn": arn, "input": parsed_in, "startDate": now,
                   "status": {"Pass": "SUCCEEDED", "Fail": "FAILED", "Wait": "RUNNING"}[t]}
            if t == "Pass":
                rec["output"] = first.get("Result", parsed_in)
            self.executions[ea] = rec
            return bad
        return Expect(errs, may, ok, note="duplicate-execution-name" if dup else None)

    def DescribeExecution(self, p, now):
        known = dict(self.executions); known.update({a: None for a in self.uncertain_exec})
        errs, arn = self.arn_errors(p, "executionArn", valid_ex_arn, "ExecutionDoesNotExist", known)
        if arn in self.uncertain_exec:
            return Expect({"ExecutionDoesNotExist"}, True, lambda body: [])

        def ok(body):
            return exec_mismatch(self.executions[arn], body)
        return Expect(errs, not errs, ok)

    def DescribeStateMachineForExecution(self, p, now):
        known = dict(self.executions); known.update({a: None for a in self.uncertain_exec})
        errs, arn = self.arn_errors(p, "executionArn", valid_ex_arn, "ExecutionDoesNotExist", known)
        if arn in self.uncertain_exec:
            return Expect({"ExecutionDoesNotExist", "StateMachineDoesNotExist", "InvalidArn"}, True, lambda body: [])
        sm = None
        if arn:
            sm = self.executions[arn]["stateMachineArn"]
            if sm not in self.machines:
                errs = {"StateMachineDoesNotExist"}

        def ok(body):
            m = self.machines[sm]
            want = {k: m[k] for k in ("definition", "name", "roleArn", "stateMachineArn", "updateDate")}
            got = dict(body) if isinstance(body, dict) else {"<body>": body}
            try:
                got["definition"] = json.loads(got.get("definition"))
            except (TypeError, ValueError):
                return ["definition is not a JSON string"]
            return [] if got == want else ["record differs: %s" % diff(want, got)]
        return Expect(errs, not errs, ok)

    def ListExecutions(self, p, now):
        errs, arn = self.arn_errors(p, "stateMachineArn", valid_sm_arn, "StateMachineDoesNotExist", self.machines)
        f = p.get("statusFilter", MISSING)
        filter_ok = f is MISSING or f is None or (isinstance(f, str) and f in STATUSES)
        if not filter_ok and not errs:
            # unknown filter: the repository ignores it, AWS refuses it; both are admissible
            return Expect({ANY4XX}, True, lambda body: list_mismatch(self, arn, None, body))
        return Expect(errs, not errs, lambda body: list_mismatch(self, arn, f if isinstance(f, str) else None, body))


def list_mismatch(model, arn, flt, body):
    try:
        got = {r["executionArn"]: r for r in body["executions"]}
    except Exception:
        return ["malformed list body %r" % (body,)]
    got = {k: v for k, v in got.items() if k not in model.uncertain_exec}
    if model.machines[arn]["type"] != "STANDARD":
        return []
    want = {k: r for k, r in model.executions.items() if r["stateMachineArn"] == arn and (flt is None or r["status"] == flt)}
    bad = []
    if set(got) != set(want):
        bad.append("listed %r, live set %r (filter %r)" % (sorted(got), sorted(want), flt))
    for k in set(got) & set(want):
        for f in ("name", "stateMachineArn", "status", "startDate"):
            if got[k].get(f) != want[k][f]:
                bad.append("%s.%s listed %r, model %r" % (k, f, got[k].get(f), want[k][f]))
    return bad


def exec_mismatch(want, body):
    if not isinstance(body, dict):
        return ["malformed body %r" % (body,)]
    bad = []
    for f in ("executionArn", "name", "stateMachineArn", "status", "startDate"):
        if body.get(f) != want[f]:
            bad.append("%s: %r, model %r" % (f, body.get(f), want[f]))
    for f in ("input", "output"):
        if f in want:
            try:
                if json.loads(body.get(f)) != want[f]:
                    bad.append("%s: %r, model %r" % (f, body.get(f), want[f]))
            except (TypeError, ValueError):
                bad.append("%s is not a JSON string: %r" % (f, body.get(f)))
    if want["status"] == "RUNNING" and body.get("stopDate") is not None:
        bad.append("RUNNING execution has stopDate")
    if want["status"] != "RUNNING" and body.get("stopDate") is None:
        bad.append("terminal execution has no stopDate")
    return bad


def diff(want, got):
    return {k: (want.get(k, MISSING), got.get(k, MISSING)) for k in set(want) | set(got) if want.get(k, MISSING) != got.get(k, MISSING)}


# ------------------------------------------------------------------------------------------------- generation
def gen_call(rng, model, hostile):
    """-> (action, params | None, raw | None, classes)"""
    acts = ["CreateStateMachine"] * 5 + ["UpdateStateMachine"] * 5 + ["DeleteStateMachine"] * 2 + ["DescribeStateMachine"] * 3 + ["ListStateMachines"] * 2 + \
           ["StartExecution"] * 4 + ["DescribeExecution"] * 2 + ["DescribeStateMachineForExecution"] * 2 + ["ListExecutions"] * 2
    action = rng.choice(acts)
    cls = []

    def pick_good_or(bad_pool, good_pool, tag, p_bad):
        if rng.random() < p_bad:
            v = copy.deepcopy(rng.choice(bad_pool)); cls.append("%s:bad:%s" % (tag, type(v).__name__ if not isinstance(v, str) else ("empty" if v == "" else "str")))
            return v
        cls.append(tag + ":good")
        return rng.choice(good_pool)
    pb = 0.25 if hostile else 0.08
    live = sorted(model.machines)
    all_arns = [sm_arn(r, n) for r in ROLES for n in NAMES]
    bad_arns = ["", "not-an-arn", 5, None, ["a"], {}, 0, "arn:aws:states:local:%s:execution:m1:e" % ACCOUNT, "arn:aws:states:local:x:stateMachine:m1", "a" * 300]

    def an_arn(tag):
        c = rng.random()
        if c < pb:
            return pick_good_or(bad_arns, None, tag, 1.0)
        if live and c < 0.75:
            cls.append(tag + ":live")
            return rng.choice(live)
        cls.append(tag + ":any")
        return rng.choice(all_arns)

    def an_exec(tag):
        c = rng.random()
        known = sorted(model.executions) + sorted(model.uncertain_exec)
        bad = ["", "nope", 5, None, {}, "arn:aws:states:local:%s:stateMachine:m1" % ACCOUNT, "arn:aws:states:local:%s:execution:" % ACCOUNT]
        if c < pb:
            return pick_good_or(bad, None, tag, 1.0)
        if known and c < 0.8:
            cls.append(tag + ":known")
            return rng.choice(known)
        cls.append(tag + ":unknown")
        return "arn:aws:states:local:%s:execution:m1:never" % ACCOUNT
    p = {}
    if action == "CreateStateMachine":
        p["name"] = pick_good_or(BAD_NAMES, NAMES, "name", pb)
        p["roleArn"] = pick_good_or(BAD_ROLES, ROLES, "role", pb)
        lab, d, c = rng.choice(DEFINITIONS) if rng.random() < (0.5 if hostile else 0.2) else rng.choice(DEFINITIONS[:4])
        p["definition"] = copy.deepcopy(d); cls.append("def:" + lab)
        if rng.random() < 0.5:
            p["type"] = rng.choice(["STANDARD", "STANDARD", "EXPRESS", "FAST", 5] if hostile else ["STANDARD", "EXPRESS"]); cls.append("type:%s" % p["type"])
        if rng.random() < 0.5:
            lc, ok = rng.choice(LOGGING) if hostile else rng.choice(LOGGING[:4])
            p["loggingConfiguration"] = copy.deepcopy(lc); cls.append("logging:" + ("ok" if ok else "bad"))
        for k in list(p):
            if rng.random() < pb / 3:
                del p[k]; cls.append("missing:" + k)
    elif action == "UpdateStateMachine":
        p["stateMachineArn"] = an_arn("arn")
        if rng.random() < 0.6:
            p["roleArn"] = pick_good_or(BAD_ROLES, ROLES, "role", pb)
        if rng.random() < 0.7:
            lab, d, c = rng.choice(DEFINITIONS) if rng.random() < (0.5 if hostile else 0.2) else rng.choice(DEFINITIONS[:4])
            p["definition"] = copy.deepcopy(d); cls.append("def:" + lab)
        if rng.random() < 0.5:
            lc, ok = rng.choice(LOGGING) if hostile else rng.choice(LOGGING[:4])
            p["loggingConfiguration"] = copy.deepcopy(lc); cls.append("logging:" + ("ok" if ok else "bad"))
    elif action in ("DeleteStateMachine", "DescribeStateMachine"):
        p["stateMachineArn"] = an_arn("arn")
        if rng.random() < pb / 3:
            p = {}; cls.append("missing:arn")
    elif action == "ListStateMachines":
        if rng.random() < pb:
            p["maxResults"] = rng.choice([1, 0, "x"]); cls.append("maxResults")
    elif action == "StartExecution":
        p["stateMachineArn"] = an_arn("arn")
        if rng.random() < 0.8:
            used = [a.rsplit(":", 1)[1] for a in model.executions]
            if used and rng.random() < 0.12:
                p["name"] = rng.choice(used); cls.append("name:used")
            else:
                p["name"] = pick_good_or(BAD_NAMES, ["e%d" % rng.randrange(10 ** 6)], "name", pb)
        if rng.random() < 0.8:
            p["input"] = pick_good_or(["{nope", "", 5, None, {"a": 1}, [1]], ['{"a": 1}', "{}", "[1, 2]", '"s"', "0"], "input", pb)
    elif action in ("DescribeExecution", "DescribeStateMachineForExecution"):
        p["executionArn"] = an_exec("exarn")
    elif action == "ListExecutions":
        p["stateMachineArn"] = an_arn("arn")
        if rng.random() < 0.6:
            p["statusFilter"] = pick_good_or(["DONE", "", 5, ["RUNNING"], {"a": 1}], STATUSES[:3], "filter", pb)
    raw = None
    if hostile and rng.random() < 0.04:
        raw = rng.choice(["[1]", "5", '"s"', "null", "{nope", "", "true", "[]"]); cls.append("raw-body:" + raw)
    return action, p, raw, cls


def snapshot(w):
    e = next(iter(w.engines.values()))

    def plain(store):
        out = {}
        for k in list(store.keys()):
            try:
                v = store[k]
            except KeyError:
                continue
            out[k] = json.loads(json.dumps(dict(v) if not isinstance(v, dict) else v, default=lambda o: dict(o) if hasattr(o, "keys") else list(o)))
        return out
    return plain(e.se.asl_store), plain(e.se.executions)


def store_vs_model(model, snap):
    machines, execs = snap
    bad = []
    if set(machines) != set(model.machines):
        bad.append("stored machines %r, model %r" % (sorted(machines), sorted(model.machines)))
    for k in set(machines) & set(model.machines):
        want, got = model.machines[k], machines[k]
        if got != want:
            bad.append("stored record %s differs: %s" % (k, diff(want, got)))
    certain = {k: v for k, v in execs.items() if k not in model.uncertain_exec}
    if set(certain) != set(model.executions):
        bad.append("stored executions %r, model %r" % (sorted(certain), sorted(model.executions)))
    for k in set(certain) & set(model.executions):
        bad += ["stored execution %s: %s" % (k, m) for m in exec_mismatch(model.executions[k], certain[k])]
    return bad


def is_internal(code, body):
    return (code is None or code >= 500 or (isinstance(body, str) and "InternalError" in body) or
            (isinstance(body, dict) and body.get("__type") in ("InternalError", "InternalFailure")))


def classify(kind, action, p, raw, code, body, exp, model, detail=""):
    """Mechanism of a listed finding, or None."""
    if kind == "internal-error":
        if raw is not None or not isinstance(p, dict):
            return "request-body-not-an-object-internal-error"
        return "wrongly-typed-argument-internal-error"
    if kind in ("error-response-changed-the-store",) and action == "UpdateStateMachine":
        return "rejected-update-partially-applied"
    if kind == "accepted-what-must-be-refused" and exp.note == "duplicate-execution-name":
        return "duplicate-execution-name-accepted"
    return None


def prelude(rng):
    """Every name of the pool live under one account, each with executions: the setting in which keys that share a prefix (m1 / m1x,
    e1 / e10) must still be told apart by the lists and look-ups that follow."""
    out = []
    defs = [DEFINITIONS[0][1], DEFINITIONS[2][1], DEFINITIONS[3][1]]
    rng.shuffle(defs)
    for n, d in zip(NAMES, defs):
        out.append(("CreateStateMachine", {"name": n, "roleArn": ROLES[0], "definition": d}))
    for n in NAMES:
        for e in rng.sample(["e1", "e10", "e1x", "e2"], rng.randint(1, 3)):
            out.append(("StartExecution", {"stateMachineArn": sm_arn(ROLES[0], n), "name": e, "input": json.dumps({"of": n, "e": e})}))
    rng.shuffle(out)
    out.sort(key=lambda c: c[0] != "CreateStateMachine")
    for n in NAMES:
        out.append(("ListExecutions", {"stateMachineArn": sm_arn(ROLES[0], n)}))
    return out


def run_sequence(ctx, k, front, store, validate, hostile, scripted=()):
    rng = ctx.rng("seq", k)
    scripted = list(scripted(rng)) if callable(scripted) else list(scripted)
    ctx.count("sequences"); ctx.count("front:" + front); ctx.count("store:" + store); ctx.count("validate:%s" % validate)
    n_calls = rng.randint(6, ctx.pick(24, 30)) + len(scripted)
    calls, sig = [], []
    refused_mut = accepted_mut = 0
    with World(seed=ctx.seed, store=store, validate_asl=validate) as w:
        model = Model(front, validate)
        for i in range(n_calls):
            w.advance(1)
            if rng.random() < 0.05:
                # let the waiting executions finish: RUNNING records become SUCCEEDED with their input as output
                w.advance(400); w.drain_instantaneous()
                ctx.count("long_time_steps")
                for r in model.executions.values():
                    if r["status"] == "RUNNING":
                        r["status"] = "SUCCEEDED"; r["output"] = r["input"]
                        ctx.count("running_executions_completed_by_time")
                sbad = store_vs_model(model, snapshot(w))
                for b in sbad:
                    ctx.violation("store-differs-from-model", dict(detail=b, front=front, store=store, validate_asl=validate, calls=calls[-12:], after="time passing"), None)
                if sbad:
                    break
            now = w.clock.now
            if scripted:
                (action, p), raw, cls = scripted.pop(0), None, ["scripted"]
                ctx.count("scripted_calls")
            else:
                action, p, raw, cls = gen_call(rng, model, hostile)
            ctx.evaluation(); ctx.count("calls"); ctx.count("action:" + action)
            sig.append([action] + cls)
            before = snapshot(w)
            try:
                code, body = w.api(action, p, raw=raw, flavour=front)
            except Exception as e:
                code, body = None, "harness saw %s: %s" % (type(e).__name__, e)
            w.drain_instantaneous()
            after = snapshot(w)
            calls.append(dict(action=action, params=p if raw is None else None, raw=raw, code=code, body=body))
            wit = lambda extra: dict(extra, front=front, store=store, validate_asl=validate, calls=calls[-12:], call_index=i)

            def report(kind, detail, exp):
                ctx.violation(kind, wit(dict(detail=detail, admissible_errors=sorted(exp.errors), may_succeed=exp.may_succeed)),
                              classify(kind, action, p, raw, code, body, exp, model, detail))
            if raw is not None or not isinstance(p, dict):
                exp = Expect({ANY4XX}, False)
                if action == "ListStateMachines":       # takes no required argument: answering the list is as good as refusing the body
                    exp = Expect({ANY4XX}, True, model.ListStateMachines({}, now).on_success)
            else:
                exp = getattr(model, action)(p, now)
            mutation = action in ("CreateStateMachine", "UpdateStateMachine", "DeleteStateMachine", "StartExecution")
            if is_internal(code, body):
                ctx.count("responses:internal")
                report("internal-error", "HTTP %r %r" % (code, body if isinstance(body, str) else body.get("__type")), exp)
                if json.dumps(before, sort_keys=True) != json.dumps(after, sort_keys=True) and action != "StartExecution":
                    report("error-response-changed-the-store", "after an internal error", exp)
                # the model cannot follow an internal error: resynchronise from the store when it changed, else carry on
                if before != after:
                    break
                continue
            if code == 200:
                ctx.count("responses:ok")
                if not exp.may_succeed:
                    report("accepted-what-must-be-refused", "HTTP 200 %r" % (body,), exp)
                    if exp.note != "duplicate-execution-name":
                        break
                bad = exp.on_success(body) if exp.on_success else []
                for b in bad:
                    report("success-response-differs-from-model", b, exp)
                accepted_mut += mutation
            else:
                ctx.count("responses:error")
                typ = body.get("__type") if isinstance(body, dict) else None
                if not exp.errors:
                    report("refused-a-valid-request", "HTTP %r %r" % (code, body), exp)
                    break
                elif ANY4XX not in exp.errors and typ not in exp.errors:
                    report("wrong-error-type", "HTTP %r __type %r" % (code, typ if typ is not None else body), exp)
                ctx.count("error_left_store_unchanged_checks")
                if json.dumps(before, sort_keys=True) != json.dumps(after, sort_keys=True):
                    report("error-response-changed-the-store", "stores differ: machines %s executions %s" % (
                        diff(before[0], after[0]), diff(before[1], after[1])), exp)
                    break
                refused_mut += mutation
            ctx.count("store_comparisons")
            sbad = store_vs_model(model, after)
            for b in sbad:
                report("store-differs-from-model", b, exp)
            if sbad:
                break
    ctx.distinct("sequences", sig)
    if refused_mut and accepted_mut:
        ctx.nontrivial(sig)
    if k % 40 == 0:
        ctx.sample(dict(front=front, store=store, validate_asl=validate, calls=[[c["action"], c["code"], c["body"].get("__type") if isinstance(c["body"], dict) else None] for c in calls]))


def run(ctx):
    n = ctx.pick(320, 48000)
    combos = [(f, s, v) for f in ("asyncio", "blocking") for s in ("json", "redis") for v in (False, True)]
    for k in range(n):
        if not ctx.mine(k):
            continue
        front, store, validate = combos[k % len(combos)]
        run_sequence(ctx, k, front, store, validate, hostile=(k // len(combos)) % 3 != 0, scripted=prelude if (k // len(combos)) % 4 == 1 else ())
        if (k // len(combos)) % 4 == 1:
            ctx.count("sequences_with_populated_prelude")


def witnesses(ctx):
    pass


def replay(ctx, doc):
    print(json.dumps(doc["witness"], indent=1, default=str)[:4000])
