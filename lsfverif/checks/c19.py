"""
C19  Work is routed to the right queue/instance; messages map faithfully to AMQP.

  R  routing monitor over the simulated broker's operation log (1..3 engine instances, classic/quorum queues, asyncio/blocking transport, corpus
     executions plus synchronous children and task-token callbacks issued on a foreign instance, competing consumers under random schedules):
     start events go to the shared queue, every later event of an execution is published by and delivered to the instance that took its start
     event, instance queues have one exclusive consumer, RPC requests go to the function's queue with the instance's own reply queue and a
     fresh correlation id, replies come back to that instance, every acknowledgement acknowledges exactly the delivery it names
  A  address monitor: the address strings the engine itself uses (recorded at parse_address) and generated addresses of the documented grammar
     are interpreted by a reference reading of that grammar; the broker must hold exactly the queues / exchanges / bindings / subscriptions
     the address describes, and a message sent to the address must arrive
  M  mapping monitor: Message -> AMQP -> Message through the real Producer/Consumer for generated field combinations: body, subject,
     application properties, correlation id, reply-to, ids and flags intact; expiration None or a non-negative integer string
  K  acknowledging one of several unacknowledged deliveries removes exactly that one from the broker's unacked set
  T  the asyncio and the blocking transports produce the same broker operations for the same A / M / K case
"""
import json, copy, random, asyncio, re, collections
from lsfverif.mon import scenario as S
from lsfverif.sim import fakepika
from lsfverif.sim.world import World, EVENTQ, EPOCH0, Clock, make_random, NOREPLY
from lsfverif.gen import families as F
from lsfverif.mon.monitors import TOPIC

ID = "C19"
ENGINE = "simworld"
LEVEL = "exploration"
RULE = ("case R = (corpus scenario | synchronous child | foreign-instance callback, instances 1..3, classic|quorum, asyncio|blocking, schedule); case A = address string "
        "(engine's own + generated from the grammar: queue/exchange nodes, durable/exclusive/auto-delete/arguments, x-bindings, link queue, exclusive subscription); case M = "
        "message field combination (expiration over numeric, numeric string, negative, non-numeric, infinite, None); case K = (n deliveries, one acknowledged); every A/M/K case "
        "on both transports; non-trivial = multi-instance run, address with options, message with expiration; distinct by case value / schedule hash")
ASSUMPTIONS = ["the fake broker implements the AMQP 0.9.1 subset the library uses (declare, bind, consume, publish, ack, return) with RabbitMQ's exclusivity and equivalence rules",
               "a Message's subject is the subject set on it (the producer's default subject is a routing default, not a message field)",
               "expiration values outside the quantifier (lists, objects) are not judged"]
FLOORS = {"evaluations": 900, "routing_runs": 250, "routing_runs_multi_instance": 120, "deliveries_checked": 8000, "event_publishes_checked": 4000, "rpc_requests_checked": 1500,
          "acks_checked": 6000, "transport:asyncio": 40, "transport:blocking": 40, "queue_type:quorum": 30, "foreign_instance_callbacks": 10, "sync_child_runs": 10,
          "addresses_checked": 300, "engine_addresses_checked": 40, "messages_mapped": 600, "expirations_checked": 300, "ack_cases": 60, "transport_pairs_compared": 400,
          "nontrivial": 400}
SHARDS = {"quick": 16, "thorough": 16}
TECHNIQUE = "offline monitor over the simulated broker's operation log (affinity, routing, acknowledgement) + reference interpreter of the address grammar + round-trip contracts on Message mapping, on both transports"
LEVEL_TEXT = ("Real engines (1-3 instances, both transports, both queue types) run the corpus on a broker that logs every declare/publish/deliver/ack with the connection that "
              "issued it; the log is checked against the affinity and mapping rules; addresses and messages are additionally driven through the real messaging classes and "
              "compared with a reference reading of the grammar. Held = no rule broken on any logged operation, up to listed findings.")
LEVEL_NOTE = "broker behaviour itself (RabbitMQ) is modelled, not executed; publisher confirms and connection recovery are out of scope"
DESIGN_REF = "DESIGN.md section 6, C19"

FN = "arn:aws:rpcmessage:local::function:"


# ============================================================================================== R: routing monitor
def conn_queues(w):
    """conn name -> {"instance": q, "reply": q}, shared queue name"""
    shared = EVENTQ + w.suffix
    out = {}
    for q in w.broker.queues.values():
        for c in q.consumers:
            cn = c.channel.connection.name
            if not (cn or "").startswith("engine:"):
                continue
            d = out.setdefault(cn, {})
            if q.name == shared:
                d["shared"] = q.name
            elif q.name.startswith(EVENTQ):
                d.setdefault("instance", []).append(q.name)
            else:
                d.setdefault("reply", []).append(q.name)
    return shared, out


def routing_monitor(ctx, run, case, sync_children=(), wit=None):
    w = run.world
    wit = wit or (lambda extra: S.witness_of(run, dict(extra, case=case)))
    shared, cq = conn_queues(w)
    n_inst = len(w.engines)
    bad = lambda kind, **kw: ctx.violation(kind, wit(kw), None)
    # ---- R4: subscriptions and queue attributes
    sq = w.broker.queues.get(shared)
    if sq is None or len([c for c in sq.consumers if (c.channel.connection.name or "").startswith("engine:")]) != n_inst or any(c.exclusive for c in sq.consumers):
        bad("shared-queue-not-consumed-by-every-instance-non-exclusively", consumers=[(c.channel.connection.name, c.exclusive) for c in sq.consumers] if sq else None)
    for cn, d in cq.items():
        iq = d.get("instance", [])
        if len(iq) != 1:
            bad("instance-does-not-own-exactly-one-instance-queue", conn=cn, queues=iq)
            continue
        q = w.broker.queues[iq[0]]
        if len(q.consumers) != 1 or not q.consumers[0].exclusive:
            bad("instance-queue-without-single-exclusive-consumer", queue=q.name, consumers=[(c.channel.connection.name, c.exclusive) for c in q.consumers])
        if not iq[0].endswith("-" + cn.split(":", 1)[1]):
            bad("instance-queue-not-named-after-its-instance", conn=cn, queue=iq[0])
    for q in w.broker.queues.values():
        if q.name.startswith(EVENTQ):
            want_args = {"x-queue-type": "quorum"} if w.suffix else None
            if not q.durable or q.exclusive or q.auto_delete or (q.arguments or None) != want_args:
                bad("event-queue-attributes", queue=q.name, durable=q.durable, exclusive=q.exclusive, auto_delete=q.auto_delete, arguments=q.arguments)
    inst_q = {cn: d["instance"][0] for cn, d in cq.items() if len(d.get("instance", [])) == 1}
    reply_q = {cn: d.get("reply", []) for cn, d in cq.items()}
    owner_of_queue = {q: cn for cn, q in inst_q.items()}
    for cn, qs in reply_q.items():
        for q in qs:
            owner_of_queue[q] = cn
    # ---- walk the log
    owner = {}                 # execution arn -> engine conn that took its start event
    seq_exec = {}              # message seq -> (exec arn, is_start)
    pub_by_seq = {}
    corr_seen = collections.Counter()
    msgs = {}
    for r in w.broker.oplog:
        op = r["op"]
        if op == "basic_publish" and r["exchange"] == "":
            body = r["body"]
            try:
                doc = json.loads(body)
            except (ValueError, TypeError):
                doc = None
            props = r["props"]
            rk = r["routing_key"]
            is_engine = (r["conn"] or "").startswith("engine:")
            if isinstance(doc, dict) and isinstance(doc.get("context"), dict) and isinstance(doc["context"].get("Execution"), dict) and rk.startswith(EVENTQ):
                ex = doc["context"]["Execution"].get("Id")
                is_start = doc["context"].get("State", {}).get("Name") == "" and "Branch" not in doc["context"].get("State", {})
                ctx.count("event_publishes_checked")
                if is_start and ex not in sync_children:
                    if rk != shared:
                        bad("start-event-not-published-to-the-shared-queue", execution=ex, routing_key=rk, by=r["conn"])
                elif is_engine:
                    if rk != inst_q.get(r["conn"]):
                        bad("execution-event-not-published-to-the-publishers-instance-queue", execution=ex, routing_key=rk, by=r["conn"], state=doc["context"].get("State", {}).get("Name"))
                    if not is_start and ex in owner and owner[ex] != r["conn"]:
                        bad("execution-event-published-by-a-foreign-instance", execution=ex, owner=owner[ex], by=r["conn"])
                if not props.get("message_id"):
                    bad("event-without-message-id", execution=ex)
                msgs[(rk, props.get("message_id"))] = (ex, is_start)
            elif is_engine and props.get("reply_to"):
                # RPC request
                ctx.count("rpc_requests_checked")
                if props["reply_to"] not in reply_q.get(r["conn"], []):
                    bad("rpc-request-reply-to-is-not-the-senders-reply-queue", reply_to=props["reply_to"], by=r["conn"], own=reply_q.get(r["conn"]))
                if not props.get("correlation_id"):
                    bad("rpc-request-without-correlation-id", routing_key=rk)
                else:
                    corr_seen[props["correlation_id"]] += 1
                if rk not in w.workers and rk not in ("ghost", "nowhere"):
                    bad("rpc-request-not-sent-to-the-functions-queue", routing_key=rk)
                exp = props.get("expiration")
                if exp is not None and not re.match(r"^\d+$", str(exp)):
                    bad("rpc-request-expiration-not-a-non-negative-integer", expiration=exp)
        elif op == "deliver":
            ctx.count("deliveries_checked")
            q = r["queue"]
            if q in owner_of_queue and r["conn"] != owner_of_queue[q]:
                bad("delivery-from-a-per-instance-queue-to-a-foreign-instance", queue=q, to=r["conn"], owner=owner_of_queue[q])
            if q.startswith(EVENTQ):
                ex, is_start = msgs.get((q, r["message_id"]), (None, None))
                if ex is None:
                    continue
                if is_start and ex not in owner:
                    owner[ex] = r["conn"]
                elif ex in owner and owner[ex] != r["conn"] and not r.get("redelivered"):
                    bad("execution-event-delivered-to-a-foreign-instance", execution=ex, owner=owner[ex], to=r["conn"], queue=q)
        elif op == "basic_ack" and (r["conn"] or "").startswith("engine:"):
            ctx.count("acks_checked")
            if r.get("multiple") or not r.get("known") or len(r.get("acked_seqs", [])) != 1 or r["acked_seqs"][0] != r.get("seq"):
                bad("acknowledgement-does-not-acknowledge-exactly-one-delivery", ack={k: r.get(k) for k in ("tag", "multiple", "known", "acked_seqs", "seq", "queue")})
    dup = [c for c, n in corr_seen.items() if n > 1]
    if dup and not w.crashes:
        # a retried / re-entered Task legitimately re-uses nothing: each request has its own event id
        bad("rpc-correlation-id-reused", correlation_ids=dup[:5])
    if n_inst > 1:
        ctx.count("owners:" + str(len(set(owner.values()))))
    return owner


def routing_case(ctx, k):
    rng = ctx.rng("route", k)
    n_inst = rng.choice([1, 2, 2, 3, 3])
    qt = rng.choice(["classic", "classic", "quorum"])
    transport = rng.choice(["asyncio", "blocking"])
    fam = rng.choice(["sequential", "fanout-none", "fanout-one", "retried-fanout", "sync-child", "foreign-callback"])
    sched = rng.randrange(1, 10 ** 6)
    case = dict(part="R", family=fam, instances=n_inst, queue_type=qt, transport=transport, schedule=sched)
    ctx.evaluation(); ctx.count("routing_runs"); ctx.count("transport:" + transport); ctx.count("queue_type:" + qt); ctx.count("family:" + fam)
    if n_inst > 1:
        ctx.count("routing_runs_multi_instance"); ctx.nontrivial(case)
    cfg = {"instances": ["i%d" % (i + 1) for i in range(n_inst)], "store": "redis" if n_inst > 1 else rng.choice(["json", "redis"]), "queue_type": qt, "transport": transport}
    pol = lambda w: make_random(random.Random(sched))
    if fam in ("sync-child", "foreign-callback"):
        return special_routing_case(ctx, rng, case, cfg, fam, pol)
    scn, meta = F.scenario(rng, fam, n_exec=rng.randint(2, 5), via=("event", "rest"))
    scn["config"] = cfg
    run = S.execute(scn, policy=pol, seed=ctx.seed, monitors=("notes",))
    try:
        if run.error:
            ctx.violation("run-error", S.witness_of(run, dict(case=case)), None)
            return
        routing_monitor(ctx, run, case)
        ctx.distinct("runs", [case, len(run.trace)])
    finally:
        S.close(run)


def special_routing_case(ctx, rng, case, cfg, fam, pol):
    child = {"StartAt": "C1", "States": {"C1": {"Type": "Task", "Resource": FN + "echo", "Next": "C2"}, "C2": {"Type": "Wait", "Seconds": 1, "End": True}}}
    tokens = []
    sync_children = set()
    if fam == "sync-child":
        ctx.count("sync_child_runs")
        form = rng.choice(["startExecution.sync", "startExecution.sync:2", "startExecution", "sfn:startSyncExecution", "startExecution.waitForTaskToken"])
        rtype = "aws-sdk" if form.startswith("sfn:") else "states"
        ctx.count("child_form:" + form)
        parent = {"StartAt": "Call", "States": {"Call": {"Type": "Task", "Resource": "arn:aws:states:local::%s:%s" % (rtype, form),
                                                          "Parameters": {"StateMachineArn": "arn:aws:states:local:0123456789:stateMachine:c", "Input": {"k.$": "$.x"}, "Name.$": "$.child"},
                                                          "ResultPath": "$.r", "Next": "After"}, "After": {"Type": "Task", "Resource": FN + "echo", "End": True}}}
        starts = [{"machine": "p", "name": "pe%d" % i, "input": {"x": i, "child": "ce%d" % i}} for i in range(rng.randint(1, 3))]
        if form != "startExecution":
            sync_children = {"arn:aws:states:local:0123456789:execution:c:ce%d" % i for i in range(len(starts))}
        scn = {"machines": {"c": {"asl": child, "type": "EXPRESS" if form.startswith("sfn:") else "STANDARD"}, "p": {"asl": parent}}, "funcs": dict(F.FUNCS), "starts": starts,
               "config": cfg}
        if form == "startExecution.waitForTaskToken":
            parent["States"]["Call"]["TimeoutSeconds"] = 30          # nobody answers the token here: the launch itself is what is observed
        hooks = []
    else:
        parent = {"StartAt": "T", "States": {"T": {"Type": "Task", "Resource": "arn:aws:states:local::rpcmessage:invoke.waitForTaskToken",
                                                    "Parameters": {"FunctionName": FN + "cb", "Payload": {"token.$": "$$.Task.Token"}}, "ResultPath": "$.r", "Next": "After"},
                                              "After": {"Type": "Task", "Resource": FN + "echo", "End": True}}}
        starts = [{"machine": "p", "name": "pe%d" % i, "input": {"x": i}} for i in range(rng.randint(1, 3))]
        scn = {"machines": {"p": {"asl": parent}}, "funcs": dict(F.FUNCS), "starts": starts, "config": cfg}

        def hook(run):
            run.world.add_worker("cb", lambda wk, req: (tokens.append(req["payload"]["token"]), NOREPLY)[1])
        hooks = [hook]
    if fam == "sync-child":
        run = S.execute(scn, policy=pol, seed=ctx.seed, monitors=("notes",), hooks=hooks)
        try:
            if run.error:
                ctx.violation("run-error", S.witness_of(run, dict(case=case)), None)
                return
            routing_monitor(ctx, run, case, sync_children=sync_children)
            ctx.distinct("runs", [case, len(run.trace)])
        finally:
            S.close(run)
        return
    # task tokens: run until every token is out, answer each through another instance's front end, run on
    w = World(seed=ctx.seed, instances=tuple(cfg["instances"]), store=cfg["store"], queue_type=cfg["queue_type"], transport=cfg["transport"])
    run = S.Run()
    run.world, run.scn, run.violations, run.error, run.trace = w, scn, [], None, []
    try:
        arn = w.create_machine("p", parent)
        from lsfverif.gen.machines import worker_behaviour
        beh = worker_behaviour(scn["funcs"])
        for fn in scn["funcs"]:
            w.add_worker(fn, beh)
        w.add_worker("cb", lambda wk, req: (tokens.append(req["payload"]["token"]), NOREPLY)[1])
        for s in starts:
            w.start_event(arn, s["name"], s["input"])
        p = pol(w)
        w.run(p, until=lambda world: len(tokens) == len(starts))
        w.drain_instantaneous(p)
        iids = list(w.engines)
        for i, tok in enumerate(list(tokens)):
            iid = iids[(i + 1) % len(iids)]       # the callback arrives at whichever instance the load balancer picked
            code, body = w.api("SendTaskSuccess", {"taskToken": tok, "output": json.dumps({"cb": i})}, iid=iid)
            ctx.count("foreign_instance_callbacks")
            if code != 200:
                ctx.violation("callback-refused", S.witness_of(run, dict(case=case, code=code, body=body)), None)
        w.run(p)
        run.trace = list(w.trace)
        for s in starts:
            ea = arn.replace(":stateMachine:", ":execution:") + ":" + s["name"]
            if w.outcome(ea)[0] != "SUCCEEDED":
                ctx.violation("callback-through-a-foreign-instance-did-not-complete-the-task", S.witness_of(run, dict(case=case, execution=ea, outcome=w.outcome(ea)[:3])), None)
        routing_monitor(ctx, run, case)
        ctx.distinct("runs", [case, len(run.trace)])
    finally:
        w.close()


# ============================================================================================== A / M / K on the messaging classes
class Lib(object):
    """The repository's messaging classes on a private fake broker, one flavour."""

    def __init__(self, flavour):
        self.flavour = flavour
        self.clock = Clock()
        self.broker = fakepika.Broker(self.clock)
        fakepika.URLParameters.brokers["lib"] = self.broker
        if flavour == "asyncio":
            import asl_workflow_engine.amqp_0_9_1_messaging_asyncio as M
            self.loop = asyncio.new_event_loop()
        else:
            import asl_workflow_engine.amqp_0_9_1_messaging as M
            self.loop = None
        self.M = M
        self.conn = M.Connection("amqp://lib")
        self.call(self.conn.open)
        self.session = self.call(self.conn.session, auto_ack=False)

    def call(self, fn, *a, **k):
        r = fn(*a, **k)
        if self.loop is not None and asyncio.iscoroutine(r):
            return self.loop.run_until_complete(r)
        return r

    def consumer(self, addr, sink):
        c = self.call(self.session.consumer, addr)
        self.call(c.set_message_listener, sink.append)
        return c

    def producer(self, addr):
        return self.call(self.session.producer, addr)

    def pump(self):
        n = 0
        while self.broker.deliverable() and n < 1000:
            q, c = self.broker.deliverable()[0]
            self.broker.deliver(q, c)
            n += 1
        if self.loop is not None:
            self.loop.run_until_complete(asyncio.sleep(0))

    def ops(self, start=0):
        out = []
        for r in self.broker.oplog[start:]:
            if r["op"] in ("queue_declare", "exchange_declare", "queue_bind", "basic_consume", "basic_publish", "basic_ack", "basic_qos"):
                d = {k: v for k, v in r.items() if k not in ("n", "step", "t", "channel", "conn")}
                if isinstance(d.get("body"), bytes):
                    d["body"] = d["body"].decode("utf-8", "replace")
                out.append(d)
        return out

    def close(self):
        try:
            self.broker.drop_connection(self.conn.connection)
        except Exception:
            pass
        if self.loop is not None:
            self.loop.close()


PRE_EXISTING = ("amq.topic", "amq.direct", "amq.match", "amq.fanout")


def reference_consumer(spec):
    """What a Consumer address describes, read off the documented grammar.  -> dict(exchanges, queues, bindings, subscribe)"""
    node, link = spec.get("node") or {}, spec.get("link") or {}
    xd = node.get("x-declare") or {}
    name, subject = spec.get("name", ""), spec.get("subject", "")
    exchanges, queues, bindings = [], [], []
    durable = bool(xd.get("durable") or node.get("durable"))
    auto_delete = bool(xd.get("auto-delete") or node.get("auto-delete"))
    if xd.get("exchange"):
        exchanges.append(dict(exchange=xd["exchange"], type=xd.get("exchange-type", "direct"), durable=durable, auto_delete=auto_delete, arguments=xd.get("arguments")))
    is_exchange = bool(name) and (name in PRE_EXISTING or name == xd.get("exchange"))
    if is_exchange:
        ld = link.get("x-declare") or {}
        if xd.get("queue"):
            qname, attrs = xd["queue"], dict(durable=durable, exclusive=bool(xd.get("exclusive")), auto_delete=auto_delete, arguments=xd.get("arguments"))
        else:
            qname = ld.get("queue", "")
            attrs = dict(durable=bool(ld.get("durable", False)), exclusive=bool(ld.get("exclusive", True)), auto_delete=bool(ld.get("auto-delete", True)), arguments=ld.get("arguments"))
        if qname == "":
            attrs["auto_delete"] = True
        queues.append(dict(queue=qname, **attrs))
        if node.get("x-bindings"):
            bindings = [dict(exchange=b["exchange"], queue=b["queue"], key=b.get("key"), arguments=b.get("arguments")) for b in node["x-bindings"] if b["exchange"] != ""]
        elif subject:
            bindings = [dict(exchange=name, queue=qname, key=subject, arguments=None)]
    else:
        qname = xd.get("queue") or name
        queues.append(dict(queue=qname, durable=durable, exclusive=bool(xd.get("exclusive")), auto_delete=auto_delete or qname == "", arguments=xd.get("arguments")))
        if node.get("x-bindings"):
            bindings = [dict(exchange=b["exchange"], queue=b["queue"], key=b.get("key"), arguments=b.get("arguments")) for b in node["x-bindings"] if b["exchange"] != ""]
    xs = link.get("x-subscribe") or {}
    return dict(exchanges=exchanges, queues=queues, bindings=bindings, subscribe=dict(exclusive=bool(xs.get("exclusive", False)), arguments=xs.get("arguments")),
                is_exchange=is_exchange)


def render(spec, rng=None):
    opts = {}
    if spec.get("node"):
        opts["node"] = spec["node"]
    if spec.get("link"):
        opts["link"] = spec["link"]
    s = spec.get("name", "")
    if spec.get("subject"):
        s += ("/" if not rng or rng.random() < 0.7 else " / ") + spec["subject"]
    if opts:
        s += ("; " if not rng or rng.random() < 0.7 else ";") + json.dumps(opts)
    return s


def parse_address_text(addr):
    """Inverse of render for the engine's own strings."""
    head, _, opt = addr.partition(";")
    if head.strip().startswith("{"):            # documented short form: the options map alone
        head, opt = "", addr
    name, _, subject = head.partition("/")
    spec = dict(name=name.strip(), subject=subject.strip())
    if opt.strip():
        o = json.loads(opt)
        spec["node"], spec["link"] = o.get("node"), o.get("link")
    return spec


def gen_address(rng, i):
    """Consumer address of the documented grammar + how a producer reaches it."""
    qn = "q%d" % i
    kind = rng.choice(["queue", "queue", "queue-bound", "exchange-sub", "exchange-named-link", "declared-exchange"])
    node, link, subject, name = {}, {}, "", qn
    if kind in ("queue", "queue-bound"):
        xd = {}
        for f in ("durable", "exclusive", "auto-delete"):
            if rng.random() < 0.4:
                xd[f] = rng.choice([True, False])
        if rng.random() < 0.3:
            xd["arguments"] = rng.choice([{"x-queue-type": "quorum"}, {"x-max-length": 10}, {"x-message-ttl": 60000}])
        if xd:
            node["x-declare"] = xd
        if rng.random() < 0.4:
            node["durable"] = True
        if rng.random() < 0.2:
            node["auto-delete"] = True
        if rng.random() < 0.4:
            link["x-subscribe"] = {"exclusive": rng.choice([True, False])}
        send = dict(addr="", subject=qn)
        if kind == "queue-bound":
            ex = rng.choice(["amq.topic", "amq.direct", "amq.match"])
            key = "k%d.a" % i
            b = {"exchange": ex, "queue": qn, "key": key}
            hdrs = None
            if ex == "amq.match":
                b["arguments"] = {"x-match": "all", "owner": "o%d" % i}
                hdrs = {"owner": "o%d" % i}
            node["x-bindings"] = [b] + ([{"exchange": "amq.direct", "queue": qn, "key": "second%d" % i}] if rng.random() < 0.3 else [])
            send = dict(addr=ex, subject=key, headers=hdrs)
    elif kind == "exchange-sub":
        name, subject = rng.choice(["amq.topic", "amq.direct"]), "s%d.x" % i
        send = dict(addr=name, subject=subject)
    elif kind == "exchange-named-link":
        name, subject = rng.choice(["amq.topic", "amq.direct"]), "s%d.y" % i
        link["x-declare"] = {"queue": "linkq%d" % i, "exclusive": rng.choice([True, False])}
        if rng.random() < 0.5:
            link["x-declare"]["durable"] = rng.choice([True, False])
        if rng.random() < 0.5:
            link["x-declare"]["auto-delete"] = rng.choice([True, False])
        send = dict(addr=name, subject=subject)
    else:
        name, subject = "ex%d" % i, "news.%d" % i
        node["x-declare"] = {"exchange": name, "exchange-type": rng.choice(["topic", "direct", "fanout"])}
        if rng.random() < 0.5:
            node["x-declare"]["durable"] = True
        link["x-declare"] = {"queue": "sub%d" % i, "exclusive": False}
        send = dict(addr=name, subject=subject)
    spec = dict(name=name, subject=subject, node=node or None, link=link or None)
    return kind, spec, send


def observed_entities(lib, start):
    ex, qs, bs, sub = [], [], [], None
    for r in lib.broker.oplog[start:]:
        if r["op"] == "exchange_declare" and not r["passive"]:
            ex.append(dict(exchange=r["exchange"], type=r["type"], durable=r["durable"], auto_delete=r["auto_delete"], arguments=r["arguments"]))
        elif r["op"] == "queue_declare" and not r["passive"]:
            qs.append(dict(queue=r["queue"], durable=r["durable"], exclusive=r["exclusive"], auto_delete=r["auto_delete"], arguments=r["arguments"]))
        elif r["op"] == "queue_bind":
            bs.append(dict(exchange=r["exchange"], queue=r["queue"], key=r.get("key"), arguments=r.get("arguments")))
        elif r["op"] == "basic_consume":
            sub = dict(exclusive=r["exclusive"], arguments=r["arguments"])
    return dict(exchanges=ex, queues=qs, bindings=bs, subscribe=sub)


def address_case_on(ctx, flavour, kind, spec, send, addr, i):
    lib = Lib(flavour)
    try:
        start = len(lib.broker.oplog)
        got = []
        try:
            lib.consumer(addr, got)
        except Exception as e:
            return dict(error="%s: %s" % (type(e).__name__, e)), None
        obs = observed_entities(lib, start)
        p = lib.producer(send["addr"])
        m = lib.M.Message(body="payload-%d" % i, subject=send["subject"], properties=dict(send.get("headers") or {}))
        p.send(m)
        lib.pump()
        return obs, dict(arrived=len(got), ops=lib.ops(start))
    finally:
        lib.close()


def norm_entities(e, server_named_ok=True):
    e = copy.deepcopy(e)
    for q in e["queues"]:
        if q["queue"].startswith("amq.gen"):
            q["queue"] = ""
    for b in e["bindings"]:
        if (b["queue"] or "").startswith("amq.gen"):
            b["queue"] = ""
    key = lambda d: json.dumps(d, sort_keys=True)
    return dict(exchanges=sorted(e["exchanges"], key=key), queues=sorted(e["queues"], key=key), bindings=sorted(e["bindings"], key=key), subscribe=e["subscribe"])


def address_case(ctx, i):
    rng = ctx.rng("addr", i)
    kind, spec, send = gen_address(rng, i)
    addr = render(spec, rng)
    ctx.evaluation(); ctx.count("addresses_checked"); ctx.count("address_kind:" + kind)
    if spec.get("node") or spec.get("link"):
        ctx.nontrivial(["A", addr])
    ctx.distinct("addresses", addr)
    ref = reference_consumer(spec)
    want = norm_entities(dict(exchanges=ref["exchanges"], queues=ref["queues"], bindings=ref["bindings"], subscribe=ref["subscribe"]))
    res = {}
    for flavour in ("asyncio", "blocking"):
        obs, flow = address_case_on(ctx, flavour, kind, spec, send, addr, i)
        res[flavour] = (obs, flow)
        wit = dict(address=addr, kind=kind, flavour=flavour, expected=want)
        if flow is None:
            ctx.violation("address-of-the-grammar-refused", dict(wit, error=obs), None)
            continue
        got = norm_entities(obs)
        if got != want:
            ctx.violation("address-declares-other-entities-than-it-describes", dict(wit, observed=got), None)
        if flow["arrived"] != 1:
            ctx.violation("message-sent-to-the-address-did-not-arrive-once", dict(wit, arrived=flow["arrived"]), None)
    ctx.count("transport_pairs_compared")
    if res["asyncio"][1] and res["blocking"][1] and res["asyncio"][1]["ops"] != res["blocking"][1]["ops"]:
        ctx.violation("transports-differ", dict(address=addr, asyncio=res["asyncio"][1]["ops"], blocking=res["blocking"][1]["ops"]), None)


def engine_addresses(ctx):
    """The address strings the engine itself uses, recorded where they are parsed, against the entities its connection declared."""
    import asl_workflow_engine.amqp_0_9_1_messaging_asyncio as MA
    import asl_workflow_engine.amqp_0_9_1_messaging as MB
    for qt in ("classic", "quorum"):
        for transport, mod in (("asyncio", MA), ("blocking", MB)):
            seen = []
            orig = mod.Destination.parse_address

            def rec(self, address, _orig=orig, _seen=seen):
                _seen.append((type(self).__name__, address))
                return _orig(self, address)
            mod.Destination.parse_address = rec
            try:
                w = World(seed=ctx.seed, queue_type=qt, transport=transport, instances=("i1", "i2"), store="redis")
            finally:
                mod.Destination.parse_address = orig
            try:
                declared = dict(exchanges=[], queues=[], bindings=[])
                for r in w.broker.oplog:
                    if not (r["conn"] or "").startswith("engine:"):
                        continue
                    if r["op"] == "exchange_declare" and not r["passive"]:
                        declared["exchanges"].append(dict(exchange=r["exchange"], type=r["type"], durable=r["durable"], auto_delete=r["auto_delete"], arguments=r["arguments"]))
                    elif r["op"] == "queue_declare" and not r["passive"]:
                        declared["queues"].append(dict(queue=r["queue"], durable=r["durable"], exclusive=r["exclusive"], auto_delete=r["auto_delete"], arguments=r["arguments"]))
                    elif r["op"] == "queue_bind":
                        declared["bindings"].append(dict(exchange=r["exchange"], queue=r["queue"], key=r.get("key"), arguments=r.get("arguments")))
                want = dict(exchanges=[], queues=[], bindings=[])
                for role, addr in seen:
                    ctx.evaluation(); ctx.count("engine_addresses_checked"); ctx.distinct("addresses", addr)
                    try:
                        spec = parse_address_text(addr)
                    except ValueError:
                        ctx.violation("engine-address-is-not-of-the-documented-grammar", dict(address=addr, role=role), None)
                        continue
                    node = spec.get("node") or {}
                    if role == "Consumer":
                        ref = reference_consumer(spec)
                        for k in want:
                            want[k] += ref[k]
                        if not (node.get("durable") or (node.get("x-declare") or {}).get("durable")) and spec["name"].startswith("asl_workflow"):
                            ctx.violation("engine-queue-address-is-not-durable", dict(address=addr), None)
                    else:
                        xd = node.get("x-declare") or {}
                        if xd.get("exchange"):
                            want["exchanges"].append(dict(exchange=xd["exchange"], type=xd.get("exchange-type", "direct"), durable=bool(xd.get("durable") or node.get("durable")),
                                                          auto_delete=bool(xd.get("auto-delete") or node.get("auto-delete")), arguments=xd.get("arguments")))
                key = lambda d: json.dumps(d, sort_keys=True)
                for k in want:
                    a, b = sorted(set(map(key, want[k]))), sorted(set(map(key, declared[k])))
                    if a != b:
                        ctx.violation("engine-declared-other-entities-than-its-addresses-describe", dict(kind=k, queue_type=qt, transport=transport, described=a, declared=b,
                                                                                                      addresses=seen), None)
            finally:
                w.close()


# ---------------------------------------------------------------------------------------------- M: mapping
EXPIRATIONS = [None, 0, 5, 1500, 2.9, "7", "7.5", " 12 ", -3, "-3", -0.5, "abc", "", True, 10 ** 12, 1e30, float("inf"), "inf", "nan", "1e400", "-inf", float("nan")]


def expected_expiration(v):
    """None stays None; a finite number >= 0 (or its text) is floored; everything else is clamped to some non-negative integer."""
    if v is None:
        return None, "none"
    try:
        f = float(v)
    except (TypeError, ValueError):
        return "0", "non-numeric"
    if f != f or f in (float("inf"), float("-inf")):
        return "any", "non-finite"
    if f < 0:
        return "0", "negative"
    return str(int(f)), "numeric" if not isinstance(v, str) else "numeric-string"


def gen_message(rng, i):
    body = rng.choice(["", "plain", json.dumps({"a": [1, 2, {"b": None}]}), "ünïcødé ✓", b"\x00\xff\xfebytes", "x" * 5000])
    props = rng.choice([None, {}, {"a": 1}, {"s": "t", "n": 1.5, "b": True, "nested": {"x": [1]}}, {"x-amqp-0-9-1.other": 1}])
    m = dict(body=body, properties=copy.deepcopy(props))
    if props is None and rng.random() < 0.6:
        del m["properties"]         # the constructor's own default
    for f, pool in (("correlation_id", [None, "c-%d" % i, "", "ünï"]), ("reply_to", [None, "reply-q", "amq.gen-xyz"]), ("message_id", [None, "m-%d" % i]),
                    ("content_type", [None, "application/json", "text/plain"]), ("content_encoding", [None, "utf-8"]), ("priority", [None, 0, 9]),
                    ("type", [None, "t"]), ("app_id", [None, "app"]), ("user_id", [None]), ("timestamp", [None, 1700000000]), ("durable", [True, False])):
        v = rng.choice(pool)
        if v is not None or rng.random() < 0.3:
            m[f] = v
    m["expiration"] = EXPIRATIONS[i % len(EXPIRATIONS)] if rng.random() < 0.8 else rng.choice(EXPIRATIONS)
    r = rng.random()
    if r < 0.35:
        m["subject"] = "mq"
    elif r < 0.6:
        m["subject"] = "mq2"        # routed by its own subject, not by the producer's default
    elif r < 0.75:
        m["subject"] = None
    return m


def mapping_on(flavour, msgs):
    lib = Lib(flavour)
    try:
        sinks = {"mq": [], "mq2": []}
        lib.consumer('mq; {"node": {"durable": true}}', sinks["mq"])
        lib.consumer('mq2; {"node": {"durable": true}}', sinks["mq2"])
        p = lib.producer("")
        p.subject = "mq"            # routing default of the producer
        out = []
        for m in msgs:
            want = m.get("subject") or "mq"
            got, other = sinks[want], sinks["mq2" if want == "mq" else "mq"]
            n0, o0 = len(got), len(other)
            kw = copy.deepcopy(m)       # (the Message keeps and extends the properties object it is given)
            try:
                msg = lib.M.Message(**kw)
                p.send(msg)
                lib.pump()
                out.append(("ok", got[n0] if len(got) > n0 else None, len(got) - n0, len(other) - o0))
            except Exception as e:
                out.append(("raised", "%s: %s" % (type(e).__name__, e), 0, 0))
        return out, lib.ops()
    finally:
        lib.close()


def mapping_case(ctx, base, n):
    msgs = []
    for i in range(base, base + n):
        msgs.append(gen_message(ctx.rng("msg", i), i))
    res = {fl: mapping_on(fl, msgs) for fl in ("asyncio", "blocking")}
    for j, m in enumerate(msgs):
        ctx.evaluation(); ctx.count("messages_mapped")
        ctx.distinct("messages", {k: (v if not isinstance(v, bytes) else v.hex()) for k, v in m.items()})
        want_exp, cls = expected_expiration(m.get("expiration"))
        ctx.count("expirations_checked"); ctx.count("expiration_class:" + cls)
        if m.get("expiration") is not None:
            ctx.nontrivial(["M", base + j])
        for fl in ("asyncio", "blocking"):
            status, got, n_arrived, n_elsewhere = res[fl][0][j]
            wit = dict(flavour=fl, sent={k: (v if not isinstance(v, bytes) else v.hex()) for k, v in m.items()}, position_in_sequence=j,
                       sent_before=[dict(subject=x.get("subject", "(not given)"), properties=x.get("properties", "(not given)")) for x in msgs[max(0, j - 3):j]])
            if status == "raised":
                ctx.violation("send-raised", dict(wit, exception=got), "expiration-non-finite-raises" if cls == "non-finite" else None)
                continue
            if n_elsewhere:
                ctx.violation("message-routed-to-another-queue-than-its-subject-or-the-producer-default", dict(wit, arrived_elsewhere=n_elsewhere), None)
                continue
            if n_arrived != 1:
                ctx.violation("sent-message-did-not-arrive-once", dict(wit, arrived=n_arrived), None)
                continue
            diffs = []
            body = m["body"].encode("utf-8") if isinstance(m["body"], str) else m["body"]
            if got.body != body:
                diffs.append(("body", repr(got.body)[:80]))
            if (m.get("subject") or None) != got.subject:
                diffs.append(("subject", got.subject))
            want_props = dict(m.get("properties") or {})
            got_props = {k: v for k, v in (got.properties or {}).items() if k != "x-amqp-0-9-1.subject"}
            if got_props != want_props:
                diffs.append(("properties", got_props))
            for f in ("correlation_id", "reply_to", "message_id", "content_type", "content_encoding", "priority", "type", "app_id", "timestamp"):
                if getattr(got, f) != m.get(f):
                    diffs.append((f, getattr(got, f)))
            if got.durable != m.get("durable", True):
                diffs.append(("durable", got.durable))
            e = got.expiration
            if want_exp is None:
                if e is not None:
                    diffs.append(("expiration", e))
            elif not (isinstance(e, str) and re.match(r"^\d+$", e)) or (want_exp != "any" and e != want_exp):
                diffs.append(("expiration", e))
            if diffs:
                ctx.violation("message-field-not-intact", dict(wit, differs=diffs, expected_expiration=want_exp), None)
    ctx.count("transport_pairs_compared")
    if res["asyncio"][1] != res["blocking"][1]:
        a, b = res["asyncio"][1], res["blocking"][1]
        first = next((i for i, (x, y) in enumerate(zip(a, b)) if x != y), min(len(a), len(b)))
        ctx.violation("transports-differ", dict(part="M", first_difference=[a[first:first + 1], b[first:first + 1]], lengths=[len(a), len(b)]), None)


# ---------------------------------------------------------------------------------------------- K: acknowledgement
def ack_on(flavour, n, which, order):
    lib = Lib(flavour)
    try:
        got = []
        lib.consumer('kq; {"node": {"durable": true}}', got)
        p = lib.producer("")
        for i in range(n):
            p.send(lib.M.Message(body="m%d" % i, subject="kq", message_id="id%d" % i))
        lib.pump()
        ch = lib.session.channel
        impl = getattr(ch, "_impl", ch)
        unacked = lambda: sorted(m.props.message_id for (qn, m) in impl.unacked.values())
        steps = [("delivered", unacked())]
        for j in order:
            got[j].acknowledge(multiple=False)
            steps.append(("acked id%d" % j, unacked()))
        return steps, lib.ops()
    finally:
        lib.close()


def ack_case(ctx, k):
    rng = ctx.rng("ack", k)
    n = rng.randint(2, 6)
    order = rng.sample(range(n), rng.randint(1, n))
    ctx.evaluation(); ctx.count("ack_cases"); ctx.nontrivial(["K", n, order]); ctx.distinct("acks", [n, order])
    res = {fl: ack_on(fl, n, None, order) for fl in ("asyncio", "blocking")}
    for fl, (steps, ops) in res.items():
        want = ["id%d" % i for i in range(n)]
        if steps[0][1] != sorted(want):
            ctx.violation("deliveries-not-all-unacknowledged", dict(flavour=fl, steps=steps), None)
            continue
        for j, (label, left) in zip(order, steps[1:]):
            want.remove("id%d" % j)
            if left != sorted(want):
                ctx.violation("acknowledgement-does-not-acknowledge-exactly-one-delivery", dict(flavour=fl, n=n, order=order, steps=steps), None)
                break
    ctx.count("transport_pairs_compared")
    if res["asyncio"] != res["blocking"]:
        ctx.violation("transports-differ", dict(part="K", asyncio=res["asyncio"][0], blocking=res["blocking"][0]), None)


def run(ctx):
    i = 0
    for k in range(ctx.pick(300, 16000)):
        i += 1
        if ctx.mine(i):
            routing_case(ctx, k)
    i += 1
    if ctx.mine(i):
        engine_addresses(ctx)
    for k in range(ctx.pick(330, 20000)):
        i += 1
        if ctx.mine(i):
            address_case(ctx, k)
    for k in range(ctx.pick(44, 3000)):
        i += 1
        if ctx.mine(i):
            mapping_case(ctx, k * 16, 16)
    for k in range(ctx.pick(70, 5000)):
        i += 1
        if ctx.mine(i):
            ack_case(ctx, k)


def witnesses(ctx):
    pass


def replay(ctx, doc):
    print(json.dumps(doc["witness"], indent=1, default=str)[:5000])
