"""
C09  Execution history is a gap-free, ordered, faithful log.

Monitors: (1) structural rules on the complete history after EVERY scheduler step (ids 1..n, previousEventId, non-decreasing
timestamps, first event ExecutionStarted with the input, at most one terminal event which agrees with the record, nothing after it,
history never shrinks); (2) faithfulness: the StateEntered/StateExited events (name + data) against the reference interpreter's
visited-state trace for the same machine/input/task behaviours; (3) GetExecutionHistory through the real REST handler in both orders;
(4) EXPRESS executions leave no record and no history.
"""
import json, collections, random
from lsfverif.ref import asl as R
from lsfverif.gen import corpus, families as F, machines as G
from lsfverif.mon import scenario as S, classify as C
from lsfverif.checks import _sched

ID = "C09"
ENGINE = "simworld"
LEVEL = "exploration"
RULE = ("case = (scenario, schedule): the C02 families and generated C01-style machines (every state type, retries, catches, fan-out) under canonical and seeded "
        "random schedules; every step of every run is one evaluation of the structural rules on the whole history (obs:history_snapshots). non-trivial = history "
        "with a fan-out or a retry, or >=2 concurrent executions; distinct by hash of (scenario, action sequence)")
ASSUMPTIONS = ["StateExited may be missing only for states that failed or were cut short by a failure elsewhere in their fan-out",
               "faithfulness is compared only where the reference has a single admissible outcome and no in-band Error member / null document occurs",
               "event types other than *StateEntered/*StateExited/Execution* are checked structurally only"]
FLOORS = {"evaluations": 500, "obs:history_snapshots": 8000, "obs:history_events_checked": 100000, "traces_compared": 250, "entered_events_compared": 1500,
          "rest_history_calls": 100, "express_runs": 10, "nontrivial": 200}
SHARDS = {"quick": 16, "thorough": 16}
TECHNIQUE = "online history monitor after every scheduler step + reference visited-state trace + REST GetExecutionHistory in both orders"
LEVEL_TEXT = ("The stored history of every execution is re-validated after every scheduler step of every run, compared with the reference interpreter's visited-state "
              "trace at the end, and read back through the real GetExecutionHistory handler forwards and reversed. Held = no structural or faithfulness violation on "
              "any snapshot, up to the listed findings.")
LEVEL_NOTE = "history is read from the engine's store objects and through the Quart test client; trusts the reference interpreter's trace"
DESIGN_REF = "DESIGN.md section 6, C09"

RULES = ("H-", "R-express-has-record-or-history")


def classify(run, v):
    m = C.classify_history_violation(run, v)
    if m:
        run.__dict__.setdefault("m1_arns", set()).add(v.get("arn"))
        return m
    if v["rule"] in ("H-events-after-terminal", "H-multiple-terminal-events", "H-terminal-event-disagrees-with-record") and v.get("arn") in run.__dict__.get("m1_arns", ()):
        # follow-on: the replies to the requests a deferred delegate sent after its event had been acknowledged, and - when that delegate
        # belongs to a fan-out with nothing to launch, which completes at once - the join it completes and everything after it, up to a
        # second terminal event
        return "deferred-delegate-after-ack"
    if v["rule"] in ("H-events-after-terminal", "H-multiple-terminal-events", "H-terminal-event-disagrees-with-record") and \
            (getattr(run, "meta", {}) or {}).get("handled_fanout_failure"):
        return "fanout-failure-handled-siblings-live"
    if v["rule"] in ("H-events-after-terminal", "H-multiple-terminal-events", "H-terminal-event-disagrees-with-record") and several_unhandled_failures(run, v.get("arn")):
        return "several-unhandled-failures-end-the-execution-twice"
    return None


def several_unhandled_failures(run, arn):
    """C06's listed finding seen from the history: the execution was ended by a failure, and ended AGAIN by another failure (two FAILED
    notifications), in a machine whose fan-out has several branches/iterations that can fail independently."""
    notes = [n for n in run.world.notifications if n["body"]["detail"]["executionArn"] == arn and n["body"]["detail"]["status"] != "RUNNING"]
    terms = [n["body"]["detail"] for n in notes]
    if len(terms) < 2 or any(t["status"] != "FAILED" for t in terms[:2]):
        return False
    # the second end must be another branch's own failure: prompt, and not the TTL back-stop's States.Timeout
    if terms[1].get("error") == "States.Timeout" or notes[1]["t"] - notes[0]["t"] >= run.world.execution_ttl - 1:
        return False
    failing = (getattr(run, "meta", {}) or {}).get("failing")
    if failing is not None and len(failing) < 2:
        return False            # the family knows how many branches fail

    def fanouts(node):
        if isinstance(node, dict):
            if node.get("Type") == "Map" or (node.get("Type") == "Parallel" and isinstance(node.get("Branches"), list) and len(node["Branches"]) >= 2):
                yield node
            for x in node.values():
                yield from fanouts(x)
        elif isinstance(node, list):
            for x in node:
                yield from fanouts(x)
    return any(True for m in run.scn["machines"].values() for _ in fanouts(m["asl"]))


def entered_exited(h):
    ent, ex = [], []
    for e in h:
        t = e.get("type", "")
        if t.endswith("StateEntered"):
            d = e.get("stateEnteredEventDetails", {})
            ent.append((d.get("name"), json.loads(d["input"]) if d.get("input") is not None else None, t[:-len("StateEntered")]))
        elif t.endswith("StateExited"):
            d = e.get("stateExitedEventDetails", {})
            ex.append((d.get("name"), json.loads(d["output"]) if d.get("output") is not None else None, t[:-len("StateExited")]))
    return ent, ex


def multiset_leq(a, b):
    """every element of a is matched (R.matches, b as reference) by a distinct element of b"""
    b = list(b)
    for x in a:
        for i, y in enumerate(b):
            if x[0] == y[0] and R.matches(y[1], x[1]):
                del b[i]
                break
        else:
            return False, x
    return True, b


def find_state_def(scn, name):
    def walk(node):
        if isinstance(node, dict):
            sts = node.get("States")
            if isinstance(sts, dict) and name in sts:
                return sts[name]
            for v in node.values():
                r = walk(v)
                if r is not None:
                    return r
        elif isinstance(node, list):
            for v in node:
                r = walk(v)
                if r is not None:
                    return r
        return None
    for m in scn["machines"].values():
        r = walk(m["asl"])
        if r is not None:
            return r
    return None


def judge_pairing(ctx, run, meta, sched):
    """Every StateExited is preceded by a StateEntered of the same state that it closes (holds whatever the schedule)."""
    for arn, h in run.histories.items():
        counts = collections.Counter()
        ctx.count("pairing_checked_histories")
        for e in h:
            t = e.get("type", "")
            if t.endswith("StateEntered"):
                counts[e["stateEnteredEventDetails"]["name"]] += 1
            elif t.endswith("StateExited"):
                n = e["stateExitedEventDetails"]["name"]
                counts[n] -= 1
                if counts[n] < 0:
                    # the listed finding's own signature: the fan-out state whose failure was handled is exited a second time when a sibling
                    # that was never stopped completes the join again (the unmatched exit is that of the Map/Parallel state itself)
                    st = find_state_def(run.scn, n)
                    mech = "fanout-failure-handled-siblings-live" if (meta.get("handled_fanout_failure") and isinstance(st, dict) and st.get("Type") in ("Parallel", "Map")
                                                                     and (st.get("Catch") or st.get("Retry"))) else None
                    ctx.violation("StateExited-without-matching-StateEntered", S.witness_of(run, dict(name=n, arn=arn, schedule_name=sched, meta=meta,
                                  types=[(x["type"], (x.get("stateEnteredEventDetails") or x.get("stateExitedEventDetails") or {}).get("name")) for x in h][:60])), mech)
                    break


def judge_structure(ctx, run, meta, sched):
    run.meta = dict(meta, handled_fanout_failure=meta.get("handled_fanout_failure") or meta.get("family") == "retried-fanout")
    judge_pairing(ctx, run, meta, sched)
    _sched.judge_rules(ctx, run, meta, sched, RULES, classify)
    if len(run.status_seq) >= 2 or meta.get("kind") or meta.get("family", "").startswith("fanout"):
        ctx.nontrivial([_sched.scn_key(run.scn), _sched.schedule_hash(run)])


def judge_rest(ctx, run, meta):
    """GetExecutionHistory through the real handler: forward == stored list, reverseOrder == exactly the reverse."""
    w = run.world
    for arn in run.execs:
        stored = run.histories.get(arn)
        code, fwd = w.api("GetExecutionHistory", {"executionArn": arn})
        code2, rev = w.api("GetExecutionHistory", {"executionArn": arn, "reverseOrder": True})
        ctx.count("rest_history_calls", 2)
        if stored is None or not stored:
            if code == 200 and fwd.get("events"):
                ctx.violation("history-served-for-execution-without-history", dict(arn=arn, scenario=run.scn), None)
            continue
        if code != 200 or code2 != 200:
            ctx.violation("GetExecutionHistory-failed", dict(arn=arn, codes=[code, code2], scenario=run.scn), None)
            continue
        if fwd["events"] != stored:
            ctx.violation("GetExecutionHistory-differs-from-store", S.witness_of(run, dict(arn=arn)), None)
        if rev["events"] != list(reversed(fwd["events"])):
            ctx.violation("reverseOrder-is-not-the-reverse", S.witness_of(run, dict(arn=arn, forward=[e["id"] for e in fwd["events"]], reverse=[e["id"] for e in rev["events"]])), None)
        # reading is reading: after a reverse read the log is what it was, for the next reader and in the store
        code3, again = w.api("GetExecutionHistory", {"executionArn": arn})
        code4, again_blocking = w.api("GetExecutionHistory", {"executionArn": arn}, flavour="blocking")
        code5, rev_blocking = w.api("GetExecutionHistory", {"executionArn": arn, "reverseOrder": True}, flavour="blocking")
        code6, last = w.api("GetExecutionHistory", {"executionArn": arn})
        ctx.count("rest_history_calls", 4)
        for label, c, got in (("forward after reverse", code3, again), ("forward through the other front end", code4, again_blocking), ("forward after the other front end's reverse", code6, last)):
            if c != 200 or got.get("events") != fwd["events"]:
                ctx.violation("history-read-changed-by-an-earlier-read", S.witness_of(run, dict(arn=arn, which=label, first=[e["id"] for e in fwd["events"]],
                                                                                               now=[e["id"] for e in (got.get("events") or [])] if c == 200 else c)), None)
                break
        if code5 == 200 and rev_blocking["events"] != list(reversed(fwd["events"])):
            ctx.violation("reverseOrder-is-not-the-reverse", S.witness_of(run, dict(arn=arn, front_end="blocking")), None)


def judge_trace(ctx, case, outs, run, sched):
    """The engine's state events must be those of SOME admissible reference variant (variants may take the same outcome
    along different paths, e.g. a parameter-path failure named States.Runtime is not catchable)."""
    subs = []
    for o in outs:
        sub = type(ctx)(ctx.check_id, ctx.tier, ctx.seed)
        judge_trace_one(sub, case, o, run, sched)
        if not sub.violation_counts:
            ctx.count("traces_compared"); ctx.count("entered_events_compared", sub.counters.get("entered_events_compared", 0))
            return
        subs.append(sub)
    ctx.count("traces_compared"); ctx.count("entered_events_compared", subs[0].counters.get("entered_events_compared", 0))
    for v in subs[0].violations:
        ctx.violation(v["kind"], v["witness"], v["mechanism"])


def judge_trace_one(ctx, case, o, run, sched):
    arn = run.execs[0]
    h = run.histories.get(arn)
    if h is None:
        ctx.violation("no-history-for-standard-execution", S.witness_of(run), None)
        return
    ent, ex = entered_exited(h)
    ref_ent = [(n, d) for kind, n, d, depth in o.trace if kind == "enter"]
    ref_ex = [(n, d) for kind, n, d, depth in o.trace if kind == "exit"]
    ctx.count("entered_events_compared", len(ent))
    types = corpus.state_types(case["asl"])
    fan = "Parallel" in types or "Map" in types
    wit = lambda extra: S.witness_of(run, dict(extra, schedule_name=sched, ref_entered=[n for n, _ in ref_ent], engine_entered=[n for n, _, _ in ent],
                                                ref_exited=[n for n, _ in ref_ex], engine_exited=[n for n, _, _ in ex]))
    # the event type prefix must be the state's Type
    tmap = {n: st.get("Type") for n, st in G.all_states(case["asl"])}
    for n, d, t in ent + ex:
        if tmap.get(n) != t:
            ctx.violation("state-event-type-does-not-match-state", wit(dict(name=n, event_prefix=t, state_type=tmap.get(n))), None)
            return
    if not fan:
        ok = len(ent) == len(ref_ent) and all(a[0] == b[0] and R.matches(b[1], a[1]) for a, b in zip(ent, ref_ent))
        if not ok:
            ctx.violation("StateEntered-sequence-differs-from-transitions-taken", wit({}), None)
        exp_ex = ref_ex if o.status == "SUCCEEDED" else ref_ex      # a failing state logs no exit in the reference either
        ok = len(ex) == len(exp_ex) and all(a[0] == b[0] and R.matches(b[1], a[1]) for a, b in zip(ex, exp_ex))
        if not ok:
            ctx.violation("StateExited-sequence-differs-from-transitions-taken", wit({}), None)
        # order: every exit follows its entry, entries and exits alternate along a sequential machine
        seq = [(e["type"][-7:] == "Entered", (e.get("stateEnteredEventDetails") or e.get("stateExitedEventDetails") or {}).get("name")) for e in h
               if e["type"].endswith(("StateEntered", "StateExited"))]
        open_state = None
        for is_enter, name in seq:
            if is_enter:
                open_state = name
            elif name != open_state:
                ctx.violation("StateExited-without-matching-StateEntered", wit(dict(name=name)), None)
                break
    else:
        if o.status == "SUCCEEDED":
            ok, rest = multiset_leq(ent, ref_ent)
            if not ok or rest:
                ctx.violation("StateEntered-multiset-differs-from-reference", wit(dict(problem=str(rest)[:300])), None)
            ok, rest = multiset_leq(ex, ref_ex)
            if not ok or rest:
                ctx.violation("StateExited-multiset-differs-from-reference", wit(dict(problem=str(rest)[:300])), None)
        else:
            # a failure cuts siblings short: the engine may log fewer entries/exits than the (sequential) reference, never others
            ok, rest = multiset_leq(ent, ref_ent)
            if not ok:
                ctx.violation("StateEntered-for-a-state-the-reference-never-enters", wit(dict(problem=str(rest)[:300])), None)
            ok, rest = multiset_leq(ex, ref_ex)
            if not ok:
                ctx.violation("StateExited-for-a-state-the-reference-never-exits", wit(dict(problem=str(rest)[:300])), None)
        # every exit is preceded by an entry of the same state
        counts = collections.Counter()
        for e in h:
            if e["type"].endswith("StateEntered"):
                counts[e["stateEnteredEventDetails"]["name"]] += 1
            elif e["type"].endswith("StateExited"):
                n = e["stateExitedEventDetails"]["name"]
                counts[n] -= 1
                if counts[n] < 0:
                    ctx.violation("StateExited-without-matching-StateEntered", wit(dict(name=n)), None)
                    break


def run(ctx):
    # (1) structural rules over the schedule families
    n_cases = ctx.pick(120, 2000)
    n_random = ctx.pick(2, 10)
    for k in range(n_cases):
        if not ctx.mine(k):
            continue
        rng = ctx.rng("fam", k)
        fam = ["sequential", "fanout-none", "fanout-one", "retried-fanout", "caught-sibling"][k % 5]
        express = k % 7 == 0
        if fam == "caught-sibling":
            # an unhandled failure while a sibling, whose own error was caught inside its branch, is busy in its fallback path
            from lsfverif.checks import c06
            kind = rng.choice(["Parallel", "Map"])
            n = rng.randint(2, 3)
            scn, meta = c06.make(rng, kind, n, {rng.randrange(n)}, "none", sib_kind="caught", fail_delay=rng.choice([1, 2]))
            meta = dict(meta, family="caught-sibling")
            if express:
                scn["machines"]["m"]["type"] = "EXPRESS"
            ctx.count("caught_sibling_scenarios")
        else:
            scn, meta = F.scenario(rng, fam, n_exec=rng.randint(1, 3), typ="EXPRESS" if express else "STANDARD")
        if k % 5 == 1:
            scn["machines"]["m"]["logging"] = {"level": rng.choice(["ALL", "ERROR", "FATAL"]), "includeExecutionData": rng.random() < 0.5,
                                               "destinations": [{"cloudWatchLogsLogGroup": {"logGroupArn": "arn:aws:logs:local:0123456789:log-group:x"}}]}
            ctx.count("with_logging_configuration")
        if express:
            ctx.count("express_runs")
        _sched.run_schedules(ctx, scn, meta, judge_structure, n_random, ["c09", k])
    # (2)+(3) faithfulness against the reference trace, and the REST views
    n_gen = ctx.pick(500, 12000)
    for k in range(n_gen):
        if not ctx.mine(k):
            continue
        rng = ctx.rng("gen", k)
        case = corpus.generated_case(rng, depth=2, max_states=5)
        try:
            outs = corpus.reference(case)
        except R.Unspecified:
            ctx.count("unspecified")
            continue
        if len({o.key() for o in outs}) != 1 or any(o.facts.get("null_docs") or o.facts.get("error_member_values") or o.facts.get("multi_retrier")
                                                     or o.facts.get("multi_failure") for o in outs):
            ctx.count("skipped_ambiguous_or_listed_finding_territory")
            continue
        handled = any(o.facts.get("fanout_failures") and (o.facts.get("caught") or o.facts.get("retries")) for o in outs)
        for s in range(ctx.pick(2, 4)):
            pol = None if s == 0 else (lambda w, r=random.Random(k * 31 + s): __import__("lsfverif.sim.world", fromlist=["make_random"]).make_random(r))
            run = S.execute(case["scenario"], policy=pol, seed=ctx.seed)
            try:
                _sched.observe(ctx, run)
                meta = dict(family="generated", handled_fanout_failure=handled)
                judge_structure(ctx, run, meta, "gen-%d" % s)
                st, out, err, t = run.outcomes.get(run.execs[0], ("NONE", None, None, None))
                if corpus.agrees(outs, st, out, err) and not handled and len(run.world.terminal_notifications()) == 1:
                    judge_trace(ctx, case, outs, run, "gen-%d" % s)
                else:
                    ctx.count("trace_not_compared_outcome_differs_or_handled_fanout_failure")
                if s == 0:
                    judge_rest(ctx, run, meta)
                if ctx.counters["traces_compared"] % 101 == 1 and run.histories:
                    ctx.sample(dict(machine=case["asl"], input=case["input"], history_types=[e["type"] for e in list(run.histories.values())[0]][:40]))
            finally:
                S.close(run)
    submitted_input_family(ctx)
    # events that arrive flagged "redelivered" although nobody ever handled them (their first consumer died before doing anything): they are handled for
    # the first time, so the log must be the ordinary one
    for k in range(ctx.pick(40, 600)):
        if not ctx.mine(k):
            continue
        rng = ctx.rng("redelivered-unhandled", k)
        scn, meta = F.scenario(rng, ["sequential", "fanout-none"][k % 2], n_exec=1, via=("event-redelivered",))
        first = scn["machines"]["m"]["asl"]["States"][scn["machines"]["m"]["asl"]["StartAt"]]
        if first.get("Type") == "Task":
            continue        # (a redelivered Task event is not invoked again: C04's listed recovery finding, not this property's business)
        ctx.count("redelivered_unhandled_start_events")
        _sched.run_schedules(ctx, scn, dict(meta, family="redelivered-unhandled"), judge_structure, 1, ["c09ru", k])


SUBMITTED = [[], 0, False, "", [1, {"a": None}], "text", 3.5, {"a": []}, {}, [[]], [0], True, -1]


def submitted_input_family(ctx):
    """The log starts with the input that was SUBMITTED: StartExecution through either front end with inputs of every JSON type (also the empty/zero/false
    ones), against ExecutionStarted.input, the first StateEntered.input, DescribeExecution.input and, for a pass-through machine, the output."""
    from lsfverif.sim.world import World
    machines = {"pass": {"StartAt": "A", "States": {"A": {"Type": "Pass", "End": True}}},
                "map": {"StartAt": "M", "States": {"M": {"Type": "Map", "ItemsPath": "$", "ItemProcessor": {"StartAt": "w", "States": {"w": {"Type": "Pass", "End": True}}}, "End": True}}}}
    k = 0
    for front in ("asyncio", "blocking"):
        for mname, asl in machines.items():
            k += 1
            if not ctx.mine(k):
                continue
            with World(seed=ctx.seed) as w:
                code, body = w.api("CreateStateMachine", {"name": mname, "definition": json.dumps(asl), "roleArn": "arn:aws:iam::0123456789:role/r"}, flavour=front)
                sm = body["stateMachineArn"]
                for j, value in enumerate(SUBMITTED):
                    if mname == "map" and not isinstance(value, list):
                        continue
                    ctx.evaluation(); ctx.count("submitted_inputs_checked")
                    text = json.dumps(value)
                    code, body = w.api("StartExecution", {"stateMachineArn": sm, "name": "e%d" % j, "input": text}, flavour=front)
                    wit = dict(front_end=front, machine=asl, submitted=text)
                    if code != 200:
                        ctx.violation("well-formed-input-refused", dict(wit, code=code, body=body), None)
                        continue
                    ex = body["executionArn"]
                    w.run()
                    c1, hist = w.api("GetExecutionHistory", {"executionArn": ex}, flavour=front)
                    c2, desc = w.api("DescribeExecution", {"executionArn": ex}, flavour=front)
                    events = (hist or {}).get("events") or [] if c1 == 200 else []
                    ctx.nontrivial([front, mname, text])
                    views = {}
                    if events and events[0].get("type") == "ExecutionStarted":
                        views["ExecutionStarted.input"] = events[0].get("executionStartedEventDetails", {}).get("input")
                    first = next((e for e in events if e.get("type", "").endswith("StateEntered")), None)
                    if first:
                        views["first StateEntered.input"] = first["stateEnteredEventDetails"].get("input")
                    if c2 == 200:
                        views["DescribeExecution.input"] = desc.get("input")
                        if desc.get("status") == "SUCCEEDED":
                            views["DescribeExecution.output"] = desc.get("output")
                    if len(views) < 3:
                        ctx.violation("history-or-record-missing-for-a-started-execution", dict(wit, views=views, codes=[c1, c2]), None)
                        continue
                    for name, got in views.items():
                        try:
                            same = json.loads(got) == value and type(json.loads(got)) is type(value)
                        except Exception:
                            same = False
                        if not same:
                            ctx.violation("log-does-not-carry-the-submitted-input", dict(wit, view=name, logged=got), None)
                            break


def witnesses(ctx):
    names = F.Names()
    st = {"Type": "Parallel", "Branches": [F.chain([("A1", F.T("echo")), ("A2", F.T("echo"))]), F.chain([("B1", {"Type": "Fail", "Error": "X", "Cause": "c"})])]}
    scn = {"machines": {"m": {"asl": F.chain([("Fan", st), ("After", F.P())])}}, "funcs": dict(F.FUNCS), "starts": [{"machine": "m", "name": "e0", "input": {"x": 1}}]}
    found = False
    for s in range(12):
        r = random.Random(s)
        run = S.execute(scn, policy=(lambda w, r=r: __import__("lsfverif.sim.world", fromlist=["make_random"]).make_random(r)), seed=ctx.seed)
        try:
            if any(v["rule"] == "H-events-after-terminal" and classify(run, v) == "deferred-delegate-after-ack" for v in run.violations):
                found = True
                break
        finally:
            S.close(run)
    ctx.witness("deferred-delegate-after-ack", found, dict(scenario=scn, schedules_tried=s + 1))


def replay(ctx, doc):
    w = doc["witness"]
    run = S.execute(w["scenario"], labels=w.get("schedule"), seed=w.get("seed", 0))
    for a, h in run.histories.items():
        print(a, [(e["id"], e["type"]) for e in h])
    judge_structure(ctx, run, w.get("meta") or {}, "replay")
    S.close(run)
