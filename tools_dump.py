#!/venv/bin/python
"""Debug helper: run one check in-process (1 shard of n) and print violations grouped by (kind, mechanism)."""
import sys, os, json, collections
sys.path.insert(0, os.path.dirname(os.path.abspath(__file__)))
os.environ.setdefault("PYTHONHASHSEED", "0")
from lsfverif import core
core.setup_paths()
core.Ctx.MAX_VIOLATIONS_KEPT = 100000
cid, nsh = sys.argv[1], int(sys.argv[2]) if len(sys.argv) > 2 else 8
only = sys.argv[3] if len(sys.argv) > 3 else None
tier = os.environ.get("VERIF_TIER", "quick")
mod = core.load_check(cid)
ctx = core.Ctx(cid, tier, int(os.environ.get("VERIF_SEED", "0")), 1 if nsh > 1 else 0, nsh)
orig = ctx.violation
allv = []
def violation(kind, witness, mechanism=None):
    allv.append((kind, mechanism, core.jsonable(witness)))
ctx.violation = violation
mod.run(ctx)
groups = collections.defaultdict(list)
for k, m, w in allv:
    groups[(k, m)].append(w)
for (k, m), ws in sorted(groups.items(), key=lambda kv: -len(kv[1])):
    if only is not None and str(m) != only:
        continue
    print("=====", k, m, len(ws))
    for w in ws[: int(os.environ.get("N", "6"))]:
        print("   ", json.dumps(w)[: int(os.environ.get("W", "420"))])
print(dict(ctx.counters))
