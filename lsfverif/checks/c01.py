"""
C01  Executions compute what the Amazon States Language prescribes.

Oracle: the reference interpreter (ref/asl.py, written from the specification) yields the SET of admissible
outcomes of a generated machine on an input with the task behaviours held fixed; the real engine runs the same
scenario in the simulated world under the canonical (FIFO, replies-in-order) schedule; the terminal notification
and the DescribeExecution record must be one of the admissible outcomes.
"""
import json, copy
from lsfverif.ref import asl as R
from lsfverif.gen import corpus, machines as G
from lsfverif.mon import scenario as S

ID = "C01"
ENGINE = "simworld"
LEVEL = "exploration"
RULE = ("case = (generated well-formed machine over the 8 state types, JSON input, task-behaviour assignment), run under the canonical schedule; "
        "quick: nesting<=2, <=5 states per level; thorough: nesting<=3, <=8 states, more inputs, plus the repository's own example machines. "
        "non-trivial = >=3 distinct state types or a fan-out, and >=1 non-default path/template field; distinct by canonical JSON of the case")
ASSUMPTIONS = ["definite reference paths only; parameter-path failures accept States.Runtime or States.ParameterPathFailure; fan-out failure accepts the error of any failing branch",
               "Cause texts are not compared; worker-raised reserved error names, Is* on a missing Variable, Map over non-arrays, data near the 256 KiB limit and "
               "executions that outlive the machine TimeoutSeconds are unspecified here (own checks)",
               "simulated broker/clock fidelity (DESIGN.md section 3)"]
FLOORS = {"evaluations": 800, "compared": 600, "nontrivial": 300, "succeeded_expected": 150, "failed_expected": 150, "with_fanout": 100, "with_retry_or_catch": 100}
SHARDS = {"quick": 16, "thorough": 16}
TECHNIQUE = "reference-interpreter monitor (differential oracle with admissible-outcome sets) over real executions in the simulated world"
LEVEL_TEXT = ("Thousands of generated machines x inputs x task behaviours are executed by the real engine (real dispatcher, messaging and task code on the "
              "simulated broker) and each terminal status/output/error name is compared with an independent interpreter written from the States Language text. "
              "Held = every compared execution ended in an admissible outcome.")
LEVEL_NOTE = "trusts the ~500-line reference interpreter, the simulated broker/clock and the generator's coverage; unspecified cases are skipped and counted"
DESIGN_REF = "DESIGN.md section 6, C01"


def classify(case, outs, got, stuck=False):
    """Known-finding predicates, decided from the reference's own trace facts (never from the engine's message text)."""
    st, out, err = got
    facts = [o.facts for o in outs]
    if any(f.get("null_docs") for f in facts):
        return "null-document-as-empty-object"
    vals = [v for f in facts for _, v in f.get("error_member_values", [])]
    if vals:
        return "inband-error-member"
    if any(f.get("multi_retrier") for f in facts):
        return "retry-shared-counter"
    if any(f.get("fanout_failures") and (f.get("caught") or f.get("retries")) for f in facts) and stuck:
        # a fan-out failed, a Retry/Catch was in play and the execution then never finished by itself (no terminal
        # status at all, or only the TTL back-stop's States.Timeout): the engine left siblings running (C06's family).
        # A *prompt* terminal status that is not admissible is never attributed to this finding.
        return "fanout-failure-handled-siblings-live"
    return None


def handled_fanout_joined_twice(run, arn):
    """The listed sibling finding's other symptom: the failure of a fan-out was taken by its Catch/Retry, a sibling that was never stopped finished
    afterwards and completed the join AGAIN - the history shows more <Type>StateExited than <Type>StateEntered events for that fan-out state (after a
    <Type>StateFailed), and the states after it run twice, racing each other to the terminal status."""
    h = (getattr(run, "histories", None) or {}).get(arn) or []
    types = [e.get("type") for e in h]
    if not any(t in ("ParallelStateFailed", "MapStateFailed") for t in types):
        return False
    entered, exited = {}, {}
    for e in h:
        t = e.get("type", "")
        if t in ("ParallelStateEntered", "MapStateEntered"):
            n = e["stateEnteredEventDetails"]["name"]; entered[n] = entered.get(n, 0) + 1
        elif t in ("ParallelStateExited", "MapStateExited"):
            n = e["stateExitedEventDetails"]["name"]; exited[n] = exited.get(n, 0) + 1
    return any(exited[n] > entered.get(n, 0) for n in exited)


def lost_branch_metadata(run, arn):
    """The one prompt symptom of the same listed finding: after a handled fan-out failure check_pending_results deleted the branch metadata
    of the whole execution while a sibling was about to enter a nested Map/Parallel state; its deferred delegate then fails on
    branch_metadata[execution_arn] (KeyError) and the execution is failed with States.Runtime whose cause ends in the quoted execution ARN."""
    for n in run.world.terminal_notifications(arn):
        d = n["body"]["detail"]
        if d.get("error") == "States.Runtime" and str(d.get("cause") or "").rstrip().endswith("'%s'" % arn):
            return True
    return False


def compare(ctx, case, tag="gen", policy=None):
    ctx.evaluation()
    try:
        outs = corpus.reference(case)
    except R.Unspecified as u:
        ctx.count("unspecified")
        ctx.count("unspecified:" + str(u)[:40])
        return None
    run = S.execute(case["scenario"], policy=policy, seed=ctx.seed, record_every=4)
    try:
        arn = run.execs[0] if getattr(run, "execs", None) else None
        st, out, err, t = run.outcomes.get(arn, ("NONE", None, None, None)) if arn else ("NONE", None, None, None)
        ctx.count("compared")
        ctx.count("steps", run.seen.get("steps", 0)); ctx.count("broker_ops", run.seen.get("broker_ops", 0))
        ctx.count("monitor_violations_seen_not_judged_here", len(run.violations))
        exp0 = outs[0]
        ctx.count("succeeded_expected" if exp0.status == "SUCCEEDED" else "failed_expected")
        types = corpus.state_types(case["asl"])
        if "Parallel" in types or "Map" in types:
            ctx.count("with_fanout")
        if any(o.facts["retries"] or o.facts["caught"] for o in outs):
            ctx.count("with_retry_or_catch")
        if len(outs) > 1:
            ctx.count("cases_with_several_admissible_outcomes")
        for ty in types:
            ctx.count("type:" + str(ty))
        key = dict(asl=case["asl"], input=case["input"], funcs=case["funcs"])
        ctx.distinct("cases", key)
        if corpus.nontrivial(case):
            ctx.nontrivial(key)
        if ctx.counters["compared"] % 97 == 1:
            ctx.sample(dict(asl=case["asl"], input=case["input"], funcs=case["funcs"], expected=[repr(o) for o in outs[:3]], engine=[st, out, err]))
        ok = corpus.agrees(outs, st, out, err)
        # the record must tell the same story as the notification (STANDARD machines)
        rec = run.records_final.get(arn) if arn else None
        rec_ok = True
        if rec is not None and st in ("SUCCEEDED", "FAILED") and len(run.world.terminal_notifications(arn)) == 1:
            rec_out = json.loads(rec["output"]) if rec.get("output") is not None else None
            rec_ok = rec.get("status") == st and rec_out == out and rec.get("error") == err
        if run.error:
            ctx.violation("engine-or-harness-exception", S.witness_of(run, dict(expected=[repr(o) for o in outs[:4]])), None)
        elif not ok:
            ctx.violation("outcome-not-admissible", S.witness_of(run, dict(expected=[repr(o) for o in outs[:4]], engine=[st, out, err], family=tag,
                                                                        ref_facts=outs[0].facts)),
                          classify(case, outs, (st, out, err), stuck=(st == "NONE" or (err == "States.Timeout" and t is not None and t >= 1_700_000_000 + run.world.execution_ttl)
                                                                      or lost_branch_metadata(run, arn) or handled_fanout_joined_twice(run, arn))))
        elif not rec_ok:
            ctx.violation("record-disagrees-with-notification", S.witness_of(run, dict(record=rec, engine=[st, out, err])), None)
        return ok
    finally:
        S.close(run)


def repo_examples():
    """The repository's own example machines (ASL literals in test/*.py), used by the thorough tier."""
    import glob, os, re, ast
    from lsfverif.core import REPO_PY
    out = []
    for f in sorted(glob.glob(os.path.join(REPO_PY, "test", "*.py"))):
        src = open(f).read()
        for m in re.finditer(r'ASL\s*=\s*"""(.*?)"""', src, re.S):
            try:
                out.append((os.path.basename(f), json.loads(m.group(1))))
            except ValueError:
                pass
    return out


def run(ctx):
    n = ctx.pick(1600, 40000)
    for k in range(n):
        if not ctx.mine(k):
            continue
        rng = ctx.rng("case", k)
        deep = (not ctx.quick) and k % 3 == 0
        case = corpus.generated_case(rng, depth=3 if deep else 2, max_states=8 if deep else 5,
                                     dict_input=rng.random() < 0.9, p_catch=0.4, p_retry=0.4)
        compare(ctx, case)
    # hand-written families aimed at the clauses of the statement
    for k, case in enumerate(clause_cases()):
        if ctx.mine(k):
            compare(ctx, case, "clause")
    minimal_start_cases(ctx)
    child_input_cases(ctx)
    # histories of definitions under one ARN
    for k in range(ctx.pick(160, 3000)):
        if ctx.mine(k):
            redefinition_case(ctx, k)


def redefine(rng, asl, funcs):
    """The same machine with the same state names, in which states (also those inside branches and item processors) prescribe something else."""
    new = copy.deepcopy(asl)
    fns = sorted(fn for fn, b in funcs.items() if b[0] in ("echo", "wrap", "const"))
    changed = 0
    for name, st in G.all_states(new):
        r = rng.random()
        if st.get("Type") == "Pass" and r < 0.8:
            st["Result"] = {"redefined": name, "n": rng.randrange(100)}; changed += 1
        elif st.get("Type") == "Task" and fns and r < 0.6 and st.get("Resource", "").startswith(G.FN_PREFIX) and st["Resource"][len(G.FN_PREFIX):] in fns:
            st["Resource"] = G.FN_PREFIX + rng.choice(fns); changed += 1
        elif st.get("Type") == "Fail" and r < 0.6:
            st["Error"] = "Redefined." + name.replace(" ", ""); changed += 1
        elif st.get("Type") == "Wait" and "Seconds" in st and r < 0.5:
            st["Seconds"] = st["Seconds"] + 1
    return new, changed


def redefinition_case(ctx, k):
    """One engine, one state machine ARN, a history of definitions: create / execute / UpdateStateMachine (or delete and create again) / execute ...
    Every execution must come out as the reference prescribes for the definition that was current when it started."""
    from lsfverif.sim.world import World
    rng = ctx.rng("redef", k)
    if k % 4 == 0:
        inner = lambda v: {"StartAt": "i" + v, "States": {"i" + v: {"Type": "Pass", "Result": v, "End": True}}}
        fan = {"Type": "Parallel", "Branches": [inner("a"), inner("b")], "Next": "Z"} if k % 8 == 0 else \
            {"Type": "Map", "ItemsPath": "$.xs", "MaxConcurrency": rng.choice([0, 1, 2]), "ItemProcessor": inner("a"), "Next": "Z"}
        asl, data, funcs = {"StartAt": "F", "States": {"F": fan, "Z": {"Type": "Pass", "End": True}}}, {"xs": [1, 2, 3]}, {}
    else:
        case = corpus.generated_case(rng, depth=2, max_states=5, allow=None, dict_input=True, p_catch=0.3, p_retry=0.0)
        asl, data, funcs = case["asl"], case["input"], case["funcs"]
        if any(b[0] in ("flaky", "seq", "silent") for b in funcs.values()):
            ctx.count("redefinition_skipped_stateful")
            return
    ctx.evaluation()
    name = "rd%d" % k
    with World(seed=ctx.seed) as w:
        beh = G.worker_behaviour(funcs)
        for fn in funcs:
            w.add_worker(fn, beh)
        code, body = w.api("CreateStateMachine", {"name": name, "definition": json.dumps(asl), "roleArn": "arn:aws:iam::0123456789:role/r"})
        if code != 200:
            ctx.count("redefinition_create_refused")
            return
        sm = body["stateMachineArn"]
        current = asl
        history = []
        for gen_no in range(rng.choice([2, 3, 4])):
            if gen_no:
                current, changed = redefine(rng, current, funcs)
                how = rng.choice(["update", "update", "delete-create"])
                if how == "update":
                    code, body = w.api("UpdateStateMachine", {"stateMachineArn": sm, "definition": json.dumps(current)})
                else:
                    w.api("DeleteStateMachine", {"stateMachineArn": sm})
                    code, body = w.api("CreateStateMachine", {"name": name, "definition": json.dumps(current), "roleArn": "arn:aws:iam::0123456789:role/r"})
                if code != 200:
                    ctx.violation("well-formed-redefinition-refused", dict(asl=current, how=how, code=code, body=body), None)
                    return
                ctx.count("redefinitions"); ctx.count("redefinition:" + how); ctx.count("redefined_states", changed)
            ename = "e%d" % gen_no
            code, body = w.api("StartExecution", {"stateMachineArn": sm, "name": ename, "input": json.dumps(data)})
            if code != 200:
                ctx.violation("well-formed-start-refused", dict(asl=current, code=code, body=body), None)
                return
            ex = body["executionArn"]
            w.run()
            try:
                outs = R.outcomes(current, lambda: G.task_oracle(funcs), data, limit=64, exec_id=ex, exec_name=ename, sm_id=sm)
            except R.Unspecified:
                ctx.count("unspecified")
                history.append(dict(definition=current, execution=ex, judged=False))
                continue
            st, out, err, t = w.outcome(ex)
            history.append(dict(definition=current, execution=ex, engine=[st, out, err], expected=[repr(o) for o in outs[:3]]))
            ctx.count("compared"); ctx.count("redefinition_executions_compared")
            if "Parallel" in corpus.state_types(current) or "Map" in corpus.state_types(current):
                ctx.count("redefinition_executions_with_fanout")
            if not corpus.agrees(outs, st, out, err):
                single = None
                if gen_no:
                    # the same definition and input in a world of their own: is it the history that matters?
                    c1 = _case(current, data, funcs)
                    r1 = S.execute(c1["scenario"], seed=ctx.seed)
                    try:
                        a1 = r1.execs[0] if getattr(r1, "execs", None) else None
                        single = list(r1.outcomes.get(a1, ("NONE", None, None, None)))[:3] if a1 else None
                    finally:
                        S.close(r1)
                    outs1 = corpus.reference(c1)
                    if single is not None and not corpus.agrees(outs1, *single):
                        # wrong on its own as well: the generated families judge (and attribute) that; not this family's business
                        ctx.count("redefinition_case_wrong_without_history")
                        return
                ctx.violation("execution-does-not-follow-the-definition-current-at-its-start" if gen_no else "outcome-not-admissible",
                              dict(history=history, input=data, funcs=funcs, alone=single, seed=ctx.seed, family="redefinition", k=k),
                              None if gen_no else classify(dict(asl=current, input=data, funcs=funcs), outs, (st, out, err), stuck=(st == "NONE")))
                return


def minimal_start_cases(ctx):
    """Executions started by the minimal event the engine documents for its queue (data + the state machine's id, nothing else in the context): the context
    object the states see is the one the engine builds itself, and $$.Execution.Input is the execution's input whatever the first states do to their data."""
    from lsfverif.sim.world import World, EVENTQ
    from lsfverif.sim import fakepika
    P = lambda **kw: dict(Type="Pass", **kw)
    machines = [
        {"StartAt": "A", "States": {"A": P(Result=1, ResultPath="$.r", Next="B"), "B": P(Parameters={"in.$": "$$.Execution.Input", "data.$": "$"}, End=True)}},
        {"StartAt": "A", "States": {"A": P(Result={"x": 2}, ResultPath="$.k.deep", Next="B"), "B": P(Parameters={"in.$": "$$.Execution.Input.k", "now.$": "$.k"}, End=True)}},
        {"StartAt": "A", "States": {"A": dict(Type="Task", Resource=G.FN_PREFIX + "wrap", ResultPath="$.res", Next="B"), "B": P(Parameters={"in.$": "$$.Execution.Input"}, End=True)}},
        {"StartAt": "M", "States": {"M": {"Type": "Map", "ItemsPath": "$.xs", "ResultPath": "$.out", "ItemProcessor": {"StartAt": "w", "States": {"w": P(Result=0, ResultPath="$.z", End=True)}}, "Next": "B"},
                                    "B": P(Parameters={"in.$": "$$.Execution.Input", "out.$": "$.out"}, End=True)}},
        {"StartAt": "A", "States": {"A": P(InputPath="$.k", ResultPath="$.k.self", Next="B"), "B": P(Parameters={"in.$": "$$.Execution.Input"}, End=True)}},
    ]
    for j, asl in enumerate(machines):
        if not ctx.mine(j):
            continue
        data = {"k": {"a": 1}, "xs": [{"i": 0}, {"i": 1}]}
        funcs = {"wrap": ["wrap"]}
        ctx.evaluation(); ctx.count("minimal_start_cases")
        outs = R.outcomes(asl, lambda: G.task_oracle(funcs), data, limit=16, exec_id=R.ANY if hasattr(R, "ANY") else "x", exec_name="x", sm_id=corpus.SM_ARN)
        with World(seed=ctx.seed) as w:
            sm = w.create_machine("m", asl)
            w.add_worker("wrap", G.worker_behaviour(funcs))
            ch = w.client_channel()
            ch.basic_publish("", EVENTQ, json.dumps({"data": data, "context": {"StateMachine": {"Id": sm}}}), fakepika.BasicProperties(message_id="min-%d" % j, content_type="application/json"))
            w.run()
            terms = w.terminal_notifications()
            ctx.count("compared")
            if len(terms) != 1:
                ctx.violation("minimal-start-event-did-not-end-once", dict(asl=asl, input=data, terminals=len(terms), family="minimal-start"), None)
                continue
            d = terms[0]["body"]["detail"]
            st, out, err = d["status"], (json.loads(d["output"]) if d.get("output") is not None else None), d.get("error")
            ctx.nontrivial(asl); ctx.distinct("cases", dict(asl=asl, minimal=True))
            if not corpus.agrees(outs, st, out, err):
                ctx.violation("outcome-not-admissible", dict(asl=asl, input=data, engine=[st, out, err], expected=[repr(o) for o in outs[:2]], family="minimal-start"), None)


def child_input_cases(ctx):
    """A state machine run as a synchronous child computes on the Input its parent's Parameters prescribe - whatever JSON value that is - and the parent's
    Task result carries the child's output: parent(v) = child(v) for an echo child, for every form of the integration."""
    from lsfverif.sim.world import World
    child = {"StartAt": "E", "States": {"E": {"Type": "Pass", "End": True}}}
    values = [0, False, "", [], {}, 1, True, "s", [0], {"a": None}, [[]], 2.5]
    forms = [("states", "startExecution.sync:2", "$.Output", "STANDARD"), ("states", "startExecution.sync", "$.Output", "STANDARD"),
             ("aws-sdk", "sfn:startSyncExecution", "$.Output", "EXPRESS")]
    k = 0
    for rtype, res, outpath, ctype in forms:
        for by_path in (True, False):
            k += 1
            if not ctx.mine(k):
                continue
            with World(seed=ctx.seed) as w:
                carn = w.create_machine("kid", child, typ=ctype)
                for j, v in enumerate(values):
                    params = {"StateMachineArn": carn, "Name": "k%d" % j}
                    if by_path:
                        params["Input.$"] = "$.v"
                    else:
                        params["Input"] = v
                    parent = {"StartAt": "L", "States": {"L": {"Type": "Task", "Resource": "arn:aws:states:local:0123456789:%s:%s" % (rtype, res), "Parameters": params,
                                                               "OutputPath": outpath, "End": True}}}
                    parn = w.create_machine("p%d" % j, parent)
                    e = w.start_event(parn, "e", {"v": v})
                    w.run()
                    st, out, err, t = w.outcome(e)
                    ctx.evaluation(); ctx.count("compared"); ctx.count("child_input_cases"); ctx.nontrivial([res, by_path, j])
                    want = v if res.endswith(":2") else json.dumps(v)
                    got = out
                    if res.endswith(":2"):
                        ok = st == "SUCCEEDED" and json.dumps(got, sort_keys=True) == json.dumps(want, sort_keys=True) and type(got) is type(want)
                    else:
                        # Output is a JSON *string* for these forms
                        try:
                            ok = st == "SUCCEEDED" and isinstance(got, str) and json.dumps(json.loads(got), sort_keys=True) == json.dumps(v, sort_keys=True) and type(json.loads(got)) is type(v)
                        except Exception:
                            ok = False
                    if not ok:
                        ctx.violation("outcome-not-admissible", dict(family="child-input", form=res, input_by_path=by_path, value=v, engine=[st, out, err], parent=parent, child=child),
                                      "null-document-as-empty-object" if v is None else None)


def _case(asl, data, funcs=None):
    return dict(asl=asl, input=data, funcs=funcs or {}, features=[],
                scenario={"machines": {"m": {"asl": asl}}, "funcs": funcs or {}, "starts": [{"machine": "m", "name": "e", "input": data}]})


def clause_cases():
    P = lambda **kw: dict(Type="Pass", **kw)
    T = lambda fn, **kw: dict(Type="Task", Resource=G.FN_PREFIX + fn, **kw)
    out = []
    # order of the filters: InputPath -> Parameters -> work -> ResultSelector -> ResultPath -> OutputPath
    out.append(_case({"StartAt": "A", "States": {"A": T("wrap", InputPath="$.in", Parameters={"p.$": "$.x", "k": 1}, ResultSelector={"sel.$": "$.in.p"},
                                                         ResultPath="$.res", OutputPath="$.res", End=True)}}, {"in": {"x": 7}, "o": 1}, {"wrap": ["wrap"]}))
    # Choice first match / Default / NoChoiceMatched
    for v in (1, 5, "s"):
        for default in (True, False):
            st = {"Type": "Choice", "Choices": [{"Variable": "$.v", "NumericGreaterThan": 0, "Next": "X"}, {"Variable": "$.v", "NumericGreaterThan": 3, "Next": "Y"}]}
            if default:
                st["Default"] = "Z"
            out.append(_case({"StartAt": "C", "States": {"C": st, "X": P(Result="X", End=True), "Y": P(Result="Y", End=True), "Z": {"Type": "Succeed"}}}, {"v": v}))
    # Fail reports Error/Cause; Succeed; Parallel branch order; Map item order with ItemSelector
    out.append(_case({"StartAt": "F", "States": {"F": {"Type": "Fail", "Error": "My.Err", "Cause": "why"}}}, {}))
    out.append(_case({"StartAt": "P", "States": {"P": {"Type": "Parallel", "Branches": [
        {"StartAt": "a", "States": {"a": {"Type": "Wait", "Seconds": 3, "Next": "a2"}, "a2": P(Result="first", End=True)}},
        {"StartAt": "b", "States": {"b": P(Result="second", End=True)}},
        {"StartAt": "c", "States": {"c": T("echo", End=True)}}], "End": True}}}, {"q": 1}, {"echo": ["echo"]}))
    out.append(_case({"StartAt": "M", "States": {"M": {"Type": "Map", "ItemsPath": "$.xs", "MaxConcurrency": 2,
                                                        "ItemSelector": {"i.$": "$$.Map.Item.Index", "v.$": "$$.Map.Item.Value", "all.$": "$.k"},
                                                        "ItemProcessor": {"StartAt": "w", "States": {"w": T("wrap", End=True)}}, "ResultPath": "$.out", "End": True}}},
                     {"xs": ["a", "b", "c", "d", "e"], "k": 9}, {"wrap": ["wrap"]}))
    # unhandled task error -> FAILED with that name; handled -> continues
    out.append(_case({"StartAt": "A", "States": {"A": T("bad", Next="B"), "B": P(End=True)}}, {}, {"bad": ["fail", "Boom"]}))
    out.append(_case({"StartAt": "A", "States": {"A": T("bad", Catch=[{"ErrorEquals": ["Boom"], "Next": "B", "ResultPath": "$.e"}], Next="B"), "B": P(End=True)}},
                     {"k": 1}, {"bad": ["fail", "Boom"]}))
    # documents that merely contain a member called Error are ordinary data
    out.append(_case({"StartAt": "A", "States": {"A": P(End=True)}}, {"Error": "just data"}))
    out.append(_case({"StartAt": "A", "States": {"A": T("c", Next="B"), "B": P(End=True)}}, {}, {"c": ["const", {"Error": "x", "n": 1}]}))
    # null documents
    out.append(_case({"StartAt": "A", "States": {"A": T("c", End=True)}}, {}, {"c": ["const", None]}))
    # the filter grid: every combination of InputPath / ResultPath / OutputPath (incl. a ResultPath that lands inside the sub-tree InputPath
    # selected, where the result IS part of the raw input) for a Pass without Result, a Task, a Parallel and a Map
    doc = {"id": 1, "order": {"qty": 2, "lines": [{"sku": "a"}, {"sku": "b"}]}, "items": [1, 2]}
    absent = object()
    for kind in ("pass", "task", "parallel", "map"):
        for ip in (absent, "$", "$.order", "$.order.lines", None):
            for rp in (absent, "$.res", "$.order.previous", "$.order.lines[0].x", "$", None):
                for op in (absent, "$.order", None):
                    if kind in ("parallel", "map") and (op is not absent or ip is None):
                        continue
                    st = {}
                    for k, v in (("InputPath", ip), ("ResultPath", rp), ("OutputPath", op)):
                        if v is not absent:
                            st[k] = v
                    funcs = {}
                    if kind == "pass":
                        st.update(Type="Pass", End=True)
                    elif kind == "task":
                        st.update(T("echo", End=True)); funcs = {"echo": ["echo"]}
                    elif kind == "parallel":
                        st.update(Type="Parallel", End=True, Branches=[{"StartAt": "b", "States": {"b": P(End=True)}}, {"StartAt": "c", "States": {"c": P(Result=1, End=True)}}])
                    else:
                        if ip not in (absent, "$"):
                            continue
                        st.update(Type="Map", End=True, ItemsPath="$.items", ItemProcessor={"StartAt": "w", "States": {"w": P(End=True)}})
                    out.append(_case({"StartAt": "A", "States": {"A": st}}, copy.deepcopy(doc), funcs))
    # a Map working on a sub-document while its result goes back into the raw input, with and without batches and a Catcher
    for rp in ("$.mapped", "$.job.results", "$"):
        for mc in (0, 1):
            for fail in (False, True):
                m = {"Type": "Map", "InputPath": "$.job", "ItemsPath": "$.items", "MaxConcurrency": mc, "ResultPath": rp, "End": True,
                     "ItemProcessor": {"StartAt": "w", "States": {"w": T("bad" if fail else "echo", End=True)}}}
                if fail:
                    m["Catch"] = [{"ErrorEquals": ["States.ALL"], "ResultPath": "$.err", "Next": "H"}]
                out.append(_case({"StartAt": "M", "States": {"M": m, "H": P(Result="handled", ResultPath="$.h", End=True)}},
                                 {"id": 7, "job": {"items": [1, 2, 3], "tag": "t"}}, {"echo": ["echo"], "bad": ["fail", "Boom"]}))
    # Choice on instants written with UTC offsets (the rule compares instants, not texts)
    for ts in ("2024-03-10T12:00:00-03:30", "2024-03-10T12:00:00-00:30", "2024-03-10T21:00:00+05:30", "2024-03-10T15:20:00Z", "2024-03-10T06:00:00-09:30", "2024-03-10T15:10:00.5Z"):
        for op in ("TimestampLessThan", "TimestampGreaterThanEquals", "TimestampEquals"):
            out.append(_case({"StartAt": "C", "States": {"C": {"Type": "Choice", "Choices": [{"Variable": "$.ts", op: "2024-03-10T15:15:00Z", "Next": "X"},
                                                                                             {"Variable": "$.ts", "TimestampGreaterThanPath": "$.other", "Next": "Y"}], "Default": "Z"},
                                                         "X": P(Result="X", End=True), "Y": P(Result="Y", End=True), "Z": P(Result="Z", End=True)}},
                             {"ts": ts, "other": "2024-03-10T17:45:00+02:30"}))
    # a Retrier on the fan-out state itself, with and without batches: the retry budget is the state's, whichever batch the failing
    # item is in, and every retry runs all items again
    for n_items in (2, 3, 4):
        for mc in (0, 1, 2):
            for attempts in (0, 1, 2):
                for fn, funcs in (("odd", {"odd": ["fail_if", "i", 1]}), ("fl1", {"fl1": ["flaky", ["Boom"]]}), ("fl2", {"fl2": ["flaky", ["Boom", "Boom"]]})):
                    for catch in (False, True):
                        if catch and fn != "odd":
                            continue
                        m = {"Type": "Map", "ItemsPath": "$.items", "MaxConcurrency": mc, "End": True,
                             "Retry": [{"ErrorEquals": ["States.ALL"], "IntervalSeconds": 1, "MaxAttempts": attempts, "BackoffRate": 1.0}],
                             "ItemProcessor": {"StartAt": "w", "States": {"w": T(fn, End=True)}}}
                        if catch:
                            m["Catch"] = [{"ErrorEquals": ["States.ALL"], "ResultPath": "$.err", "Next": "H"}]
                        out.append(_case({"StartAt": "M", "States": {"M": m, "H": P(Result="handled", ResultPath="$.h", End=True)}},
                                         {"items": [{"i": k} for k in range(n_items)]}, funcs))
    return out


WITNESSES = {
    "inband-error-member": _case({"StartAt": "A", "States": {"A": {"Type": "Pass", "End": True}}}, {"Error": "just data"}),
    "null-document-as-empty-object": _case({"StartAt": "A", "States": {"A": {"Type": "Task", "Resource": G.FN_PREFIX + "c", "End": True}}}, {}, {"c": ["const", None]}),
    "resultpath-alias-cycle": _case({"StartAt": "A", "States": {"A": {"Type": "Pass", "ResultPath": "$.r", "End": True}}}, {"k": 1}),
    "resultpath-bracket-quotes": _case({"StartAt": "A", "States": {"A": {"Type": "Pass", "Result": 1, "ResultPath": "$['a b']", "End": True}}}, {"k": 1}),
    "template-root-path-primitive": _case({"StartAt": "A", "States": {"A": {"Type": "Pass", "Parameters": {"x.$": "$"}, "End": True}}}, "str"),
}


def witnesses(ctx):
    for fid, case in WITNESSES.items():
        sub = type(ctx)(ctx.check_id, ctx.tier, ctx.seed)
        compare(sub, case, "witness")
        ctx.witness(fid, bool(sub.violation_counts), sub.violations[0]["witness"] if sub.violations else None)
        for v in sub.violations:
            ctx.violation(v["kind"], v["witness"], fid)
    if not ctx.quick:
        for name, asl in repo_examples():
            ctx.count("repo_examples_seen")


def replay(ctx, doc):
    w = doc["witness"]
    scn = w["scenario"]
    case = dict(scenario=scn, asl=scn["machines"]["m"]["asl"], input=scn["starts"][0]["input"], funcs=scn.get("funcs", {}), features=[])
    outs = corpus.reference(case)
    print("reference admissible outcomes:", outs)
    run = S.execute(scn, labels=w.get("schedule"), seed=w.get("seed", 0))
    print("engine:", run.outcomes, "notifications:", [(n["t"], n["body"]["detail"]["status"], n["body"]["detail"].get("error")) for n in run.world.notifications])
    for a, h in run.histories.items():
        print("history:", [e["type"] for e in h])
    S.close(run)
    compare(ctx, case, "replay")
