"""
C08  Waits and timeouts fire at the right instant, never early.

Time is virtual, so instants are compared exactly.
  P  parse_rfc3339_datetime against an independent parser for EVERY offset -23:59..+23:59 x fraction forms x Z
  W  Wait Seconds/SecondsPath/Timestamp/TimestampPath: exit instant == target under on-time delivery, == max(target, delivery) when the
     state's event is delivered late, never before the target, also after a crash + redelivery; in 5 process time zones
  T  Task TimeoutSeconds: no reply -> States.Timeout exactly at entry+TimeoutSeconds (retriable, catchable); reply before/after the deadline
  E  machine TimeoutSeconds: States.Timeout at start+TimeoutSeconds that no Retry/Catch intercepts (in Wait, Task, fan-out)
  C  a cleared/superseded timer has no effect and no non-housekeeping timer survives the drain
"""
import json, copy, random, datetime as _dt
from lsfverif.ref import asl as R
from lsfverif.gen import families as F, machines as G
from lsfverif.mon import scenario as S
from lsfverif.sim.world import World, EPOCH0, canonical, EVENTQ

ID = "C08"
ENGINE = "simworld"
LEVEL = "exploration"
RULE = ("P: all 2879 offsets x {none, .5, .123456, .000001} x Z form (exhaustive, both tiers) + 7-9 digit fractions; W: Wait kind x duration/instant x delivery "
        "{on time, late by d, crash+redelivery before/after the target} x TZ in {UTC, +05:30, -03:30, +05:45, -08:00}; T: TimeoutSeconds x reply delay in "
        "{none, before, after} x {no handler, Retry, Catch}; E: machine TimeoutSeconds while in Wait / silent Task / fan-out x handlers. non-trivial = offset with "
        "non-zero minutes, late or redelivered delivery, or a deadline that is actually hit; distinct by canonical JSON of the case")
ASSUMPTIONS = ["a reply due at exactly the deadline instant is unspecified (both are enabled at the same instant)", "lower-case 't'/'z' and leap seconds are not generated",
               "virtual clock replaces time/datetime as module attributes (DESIGN.md section 3)"]
FLOORS = {"fanout_wait_cases": 60, "evaluations": 12000, "parsed_compared": 11000, "wait_cases": 200, "wait_late_or_redelivered": 80, "task_timeout_cases": 60, "execution_timeout_cases": 40,
          "nontrivial": 6000, "timers_fired_observed": 300}
SHARDS = {"quick": 16, "thorough": 16}
TECHNIQUE = "exhaustive differential of the timestamp parser + virtual-clock monitors on Wait/timeout instants under injected delivery delays, crashes and time zones"
LEVEL_TEXT = ("The parser is compared with an independent one on every legal offset; Wait and timeout instants are measured on the virtual clock (exactly) across durations, "
              "delivery delays, redeliveries after a crash and five process time zones. Held = no early, late or missing firing and no parser disagreement.")
LEVEL_NOTE = "instants are exact because the clock is virtual; what is decided is the engine's arithmetic and timer handling, not the host's timer accuracy"
DESIGN_REF = "DESIGN.md section 6, C08"

TZS = ["UTC", "IST-5:30", "NST+3:30", "NPT-5:45", "PST+8"]      # POSIX TZ strings: sign is inverted (IST-5:30 = UTC+05:30)
ARN = "arn:aws:states:local:0123456789:execution:m:e"


# ----------------------------------------------------------------------------- P: parser
def check_parser(ctx):
    from asl_workflow_engine.state_engine import parse_rfc3339_datetime
    base = "2024-02-29T12:34:56"
    fracs = ["", ".5", ".123456", ".000001"]
    i = 0
    for sign in "+-":
        for hh in range(0, 24):
            for mm in range(0, 60):
                if sign == "-" and hh == 0 and mm == 0:
                    continue
                for fr in fracs:
                    i += 1
                    if not ctx.mine(i):
                        continue
                    compare_ts(ctx, parse_rfc3339_datetime, "%s%s%s%02d:%02d" % (base, fr, sign, hh, mm), nontrivial=mm != 0)
    for fr in fracs + [".0", ".999999", ".25"]:
        for b in (base, "1970-01-01T00:00:00", "1999-12-31T23:59:59", "2038-01-19T03:14:08"):
            i += 1
            if ctx.mine(i):
                compare_ts(ctx, parse_rfc3339_datetime, b + fr + "Z", nontrivial=bool(fr))
    for fr in (".1234567", ".12345678", ".123456789", ".000000001"):
        for off in ("Z", "+01:00", "-09:30"):
            i += 1
            if ctx.mine(i):
                compare_ts(ctx, parse_rfc3339_datetime, base + fr + off, nontrivial=True, family="fraction>6")


def compare_ts(ctx, parse, s, nontrivial=False, family="offset"):
    ctx.evaluation()
    exp = R.parse_ts(s)
    try:
        got = parse(s).timestamp()
    except Exception as e:
        got = "%s: %s" % (type(e).__name__, e)
    ctx.count("parsed_compared")
    if nontrivial:
        ctx.nontrivial(s)
    if ctx.counters["parsed_compared"] % 2999 == 1:
        ctx.sample(dict(timestamp=s, expected_epoch=exp, engine=got))
    if not (isinstance(got, float) and abs(got - exp) < 1e-5):
        ctx.violation("timestamp-denotes-wrong-instant", dict(timestamp=s, expected_epoch=exp, engine=got, family=family),
                      "rfc3339-fraction>6-digits" if family == "fraction>6" else None)


def choice_instant_cases(ctx):
    """'wherever it is used': the Choice state's Timestamp* operators (literal and Path operands) through the real engine, on pairs of spellings of known
    instants - same zone with different fraction digits, different zones, equal instants spelled differently."""
    from lsfverif.sim import mini
    base = 1710072000.0          # 2024-03-10T12:00:00Z
    def spellings(t):
        out = []
        whole = abs(t - round(t)) < 1e-9
        for off in (0, 330, -210, -30, 60):
            tz = _dt.timezone(_dt.timedelta(minutes=off))
            d = _dt.datetime.fromtimestamp(t, tz)
            stem = d.strftime("%Y-%m-%dT%H:%M:%S")
            o = d.strftime("%z")
            suffix = "Z" if off == 0 else o[:3] + ":" + o[3:]
            micro = d.microsecond
            fr = [""] if whole else []
            if whole:
                fr += [".0", ".000", ".000000"]
            else:
                digits = ("%06d" % micro).rstrip("0")
                fr += ["." + digits, "." + digits + "0", ".%06d" % micro]
            out += [stem + f + suffix for f in fr]
        return out
    instants = [base, base + 0.5, base + 1, base - 0.25]
    ops = {"TimestampEquals": lambda a, b: a == b, "TimestampLessThan": lambda a, b: a < b, "TimestampGreaterThan": lambda a, b: a > b,
           "TimestampLessThanEquals": lambda a, b: a <= b, "TimestampGreaterThanEquals": lambda a, b: a >= b}
    i = 0
    for ta in instants:
        for tb in instants:
            sa, sb = spellings(ta), spellings(tb)
            for ja, a in enumerate(sa):
                for jb, b in enumerate(sb):
                    if (ja + 3 * jb) % (7 if ctx.quick else 2):
                        continue
                    i += 1
                    if not ctx.mine(i):
                        continue
                    opname = list(ops)[i % len(ops)]
                    by_path = i % 2 == 0
                    rule = {"Variable": "$.a", (opname + "Path" if by_path else opname): ("$.b" if by_path else b), "Next": "Y"}
                    asl = {"StartAt": "C", "States": {"C": {"Type": "Choice", "Choices": [rule], "Default": "N"}, "Y": {"Type": "Pass", "Result": "Y", "End": True},
                                                      "N": {"Type": "Pass", "Result": "N", "End": True}}}
                    ctx.evaluation(); ctx.count("choice_instant_comparisons")
                    if a[-1] == b[-1] == "Z" or a[-6:] == b[-6:]:
                        ctx.count("choice_same_zone_pairs"); ctx.nontrivial([a, b, opname])
                    res = mini.run(asl, {"a": a, "b": b})
                    want = "Y" if ops[opname](round(ta, 6), round(tb, 6)) else "N"
                    if not (res["status"] == "SUCCEEDED" and res["output"] == want):
                        ctx.violation("choice-compares-timestamps-by-something-else-than-their-instants", dict(a=a, b=b, operator=opname, by_path=by_path, expected=want,
                                                                                                           engine=[res["status"], res.get("output"), res.get("error")]), None)


def sync_call_timer_cases(ctx):
    """The guard timer of a StartSyncExecution call is superseded by the call's completion: once the call has its answer no timer of it stays armed, and
    nothing happens when its period (30 min) has passed - also when the same execution name is used again meanwhile."""
    machines = {"pass": {"StartAt": "A", "States": {"A": {"Type": "Pass", "End": True}}},
                "task": {"StartAt": "A", "States": {"A": F.T("echo", End=True)}},
                "fail": {"StartAt": "A", "States": {"A": {"Type": "Fail", "Error": "E", "Cause": "c"}}}}
    for j, (name, asl) in enumerate(machines.items()):
        if not ctx.mine(j):
            continue
        ctx.evaluation(); ctx.count("sync_call_timer_cases"); ctx.nontrivial(["sync-call", name])
        with World(seed=ctx.seed) as w:
            sm = w.create_machine("x", asl, typ="EXPRESS")
            w.add_worker("echo", G.worker_behaviour({"echo": ["echo"]}))
            def call(nm):
                t = w.api_task("StartSyncExecution", {"stateMachineArn": sm, "name": nm, "input": "{}"})
                w.pump(20); w.step_hooks.append(lambda world, act: world.pump(4))
                w.run(until=lambda world: t.done()); w.pump(20)
                w.step_hooks.pop()
                return t.result() if t.done() else (None, "pending")
            code, body = call("same")
            eng = next(iter(w.engines.values()))
            armed = [getattr(t.cb, "__qualname__", "?") for t in eng.conn.timers if not w.is_housekeeping(t)]
            wit = dict(machine=name, first_call=[code, str(body)[:120]])
            if code != 200:
                ctx.violation("StartSyncExecution-did-not-answer", wit, None)
                continue
            if armed:
                ctx.violation("superseded-timer-still-armed-after-the-call-completed", dict(wit, armed=armed), None)
            n0 = len(w.broker.oplog)
            w.advance(1700); w.run()
            code2, body2 = call("same")            # the same name again, shortly before the first call's period would have ended
            w.advance(200); w.run()                # ... and past it
            w.pump(20)
            ops = [(r["op"], r.get("routing_key")) for r in w.broker.oplog[n0:] if (r["conn"] or "").startswith("engine:") and r["op"] == "basic_publish" and r.get("exchange") == ""]
            if code2 != 200 or (isinstance(body2, dict) and isinstance(body, dict) and body2.get("status") != body.get("status")):
                ctx.violation("cancelled-or-superseded-timer-had-an-effect", dict(wit, second_call=[code2, str(body2)[:160]]), None)
            errs = getattr(w, "loop_errors", None)
            if errs:
                ctx.violation("cancelled-or-superseded-timer-had-an-effect", dict(wit, loop_errors=[str(e)[:200] for e in errs]), None)


# ----------------------------------------------------------------------------- W: Wait states
def iso(t, offset_minutes=0, frac=False):
    tz = _dt.timezone(_dt.timedelta(minutes=offset_minutes))
    d = _dt.datetime.fromtimestamp(t, tz)
    s = d.strftime("%Y-%m-%dT%H:%M:%S")
    if frac:
        s += ".%06d" % d.microsecond
    off = d.strftime("%z")
    return s + ("Z" if offset_minutes == 0 else off[:3] + ":" + off[3:])


def wait_case(ctx, rng, k):
    kind = ["Seconds", "SecondsPath", "Timestamp", "TimestampPath"][k % 4]
    tz = TZS[(k // 4) % len(TZS)]
    delivery = ["on-time", "late", "redelivered-before", "redelivered-after", "on-time"][(k // 20) % 5]
    dur = rng.choice([1, 2, 5, 30, 100, 0.5]) if kind in ("Seconds", "SecondsPath") else rng.choice([3, 10, 100, 1000])
    late = rng.choice([1, 3, dur + 2]) if delivery == "late" else 0
    off_min = rng.choice([0, 330, -210, 345, -480, 60])
    st = {"Type": "Wait", "Next": "Post"}
    data = {"k": 1}
    if kind == "Seconds":
        if dur != int(dur):
            dur = int(dur) + 1
        st["Seconds"] = dur
    elif kind == "SecondsPath":
        st["SecondsPath"] = "$.secs"; data["secs"] = dur
    # the Wait is entered at EPOCH0 exactly (Pre is handled at t=0); timestamps are relative to that
    target_abs = EPOCH0 + dur
    if kind == "Timestamp":
        st["Timestamp"] = iso(target_abs, off_min)
    elif kind == "TimestampPath":
        st["TimestampPath"] = "$.until"; data["until"] = iso(target_abs, off_min)
    asl = {"StartAt": "Pre", "States": {"Pre": {"Type": "Pass", "Next": "W"}, "W": st, "Post": {"Type": "Pass", "End": True}}}
    case = dict(kind=kind, tz=tz, delivery=delivery, duration=dur, late=late, state=st, input=data)
    ctx.evaluation(); ctx.count("wait_cases")
    if delivery != "on-time":
        ctx.count("wait_late_or_redelivered")
    ctx.nontrivial(case)
    with World(seed=ctx.seed, tz=tz, execution_ttl=5000) as w:
        arn_sm = w.create_machine("m", asl)
        e = w.start_event(arn_sm, "e", data)
        # run until the W event sits at the head of the instance queue (Pre handled, nothing of W yet)
        def w_queued(world):
            q = world.broker.queues.get(EVENTQ + "-i1")
            return bool(q and q.messages and b'"Name": "W"' in q.messages[0].body)
        w.run(until=w_queued)
        entered = w.clock.now
        if late:
            w.advance(late)
        delivered_at = w.clock.now
        if delivery.startswith("redelivered"):
            w.step()                       # deliver W: the timer is armed
            gap = (dur / 2.0) if delivery == "redelivered-before" else (dur + 3)
            # the engine dies before the timer fires; its timers die with it, the unacked event is redelivered
            w.crash_engine("i1")
            w.clock.now += gap
            w.start_engine("i1")
            delivered_at = w.clock.now
        w.run()
        st_, out, err, t = w.outcome(e)
        h = None
        for eng in w.engines.values():
            h = eng.se.execution_history.get(e)
        exits = [ev["timestamp"] for ev in (h or []) if ev["type"] == "WaitStateExited"]
        ctx.count("timers_fired_observed", len(exits))
        expected = max(entered + dur, delivered_at)
        got = exits[-1] if exits else t
        wit = dict(case, entered=entered - EPOCH0, delivered_at=delivered_at - EPOCH0, expected_exit=expected - EPOCH0, engine_exit=(got - EPOCH0) if got else None,
                   status=st_, error=err)
        if st_ != "SUCCEEDED":
            ctx.violation("wait-state-did-not-complete", wit, None)
        elif got is None or got < entered + dur - 1e-6:
            ctx.violation("wait-completed-EARLY", wit, None)
        elif abs(got - expected) > 1e-6:
            ctx.violation("wait-completed-late-or-at-wrong-instant", wit, None)
        if ctx.counters["wait_cases"] % 37 == 1:
            ctx.sample(wit)


def fanout_wait_case(ctx, rng, k):
    """Waits and Task time-outs inside Map iterations that run in MaxConcurrency batches, and inside Parallel branches that start late:
    every one of them is measured from the instant ITS state was entered, not from the instant the fan-out (or an earlier batch) was."""
    n = rng.randint(2, 4)
    mc = rng.randint(1, n)
    dur = rng.choice([1, 2, 5, 10])
    what = ["wait", "task-timeout", "wait-after-task", "wait-only", "slow-then-wait-only"][k % 5]
    tz = TZS[k % len(TZS)]
    if what == "wait":
        proc = F.chain([("I1", F.W(dur)), ("I2", F.T("mark"))])
        per_item = dur
    elif what == "task-timeout":
        proc = {"StartAt": "I1", "States": {"I1": dict(F.T("silent"), TimeoutSeconds=dur, Catch=[{"ErrorEquals": ["States.Timeout"], "ResultPath": "$.e", "Next": "I2"}], Next="I2"),
                                            "I2": dict(F.T("mark"), End=True)}}
        per_item = dur
    elif what == "wait-only":
        # the Wait is the iteration's only state: the event that re-enters the Map for the next batch stems from a state entered `dur` ago
        proc = F.chain([("I1", F.W(dur))])
        per_item = dur
    elif what == "slow-then-wait-only":
        proc = F.chain([("I1", F.W(dur)), ("I0", F.T("slow1"))])
        per_item = dur + 1
    else:
        proc = F.chain([("I0", F.T("slow1")), ("I1", F.W(dur)), ("I2", F.T("mark"))])
        per_item = dur + 1
    asl = F.chain([("Fan", {"Type": "Map", "ItemsPath": "$.items", "MaxConcurrency": mc, "ItemProcessor": proc, "ResultPath": "$.out"}), ("Done", F.P())])
    items = [{"id": "it%d" % i, "i": i} for i in range(n)]
    scn = {"machines": {"m": {"asl": asl}}, "funcs": {"mark": ["echo"], "silent": ["silent"], "slow1": ["slow", 1]},
           "starts": [{"machine": "m", "name": "e", "input": {"items": items}}], "config": {"tz": tz, "execution_ttl": 5000}}
    ctx.evaluation(); ctx.count("fanout_wait_cases")
    case = dict(kind="batched-map-" + what, n=n, max_concurrency=mc, duration=dur, tz=tz)
    ctx.nontrivial(case)
    run = S.execute(scn, seed=ctx.seed, monitors=("notes",), settle=False)
    try:
        got = sorted(round(r["t"], 6) for r in run.requests.get("mark", []))
        # batch b (0-based) starts when batch b-1 has finished: at b * per_item; its items reach "mark" per_item later
        want = sorted(round((i // mc + 1) * per_item, 6) for i in range(n))
        if what in ("wait-only", "slow-then-wait-only"):
            # no marker task: read the instants at which the Waits were left from the history
            h = run.histories.get(run.execs[0]) or []
            got = sorted(round(ev["timestamp"] - EPOCH0, 6) for ev in h if ev["type"] == "WaitStateExited")
            want = sorted(round((i // mc) * per_item + dur, 6) for i in range(n))
        ctx.count("timers_fired_observed", len(got))
        st, out, err, t = run.outcomes.get(run.execs[0], ("NONE", None, None, None))
        wit = S.witness_of(run, dict(case=case, expected_instants=want, engine_instants=got, status=st, error=err))
        if st != "SUCCEEDED" or len(got) != len(want):
            ctx.violation("batched-fan-out-did-not-complete", wit, None)
        elif any(g < w_ - 1e-6 for g, w_ in zip(got, want)):
            ctx.violation("wait-or-time-out-in-a-later-batch-fired-EARLY", wit, None)
        elif any(abs(g - w_) > 1e-6 for g, w_ in zip(got, want)):
            ctx.violation("wait-or-time-out-in-a-batch-fired-at-wrong-instant", wit, None)
    finally:
        S.close(run)


# ----------------------------------------------------------------------------- T / E: timeouts through the scenario runner (monitors attached)
def timeout_case(ctx, rng, k):
    T = F.T
    kind = ["task-silent", "task-late-reply", "task-early-reply", "task-retry", "task-catch", "exec-wait", "exec-task", "exec-fanout", "exec-handlers",
            "task-silent-crash", "exec-task-crash", "exec-tie", "exec-overdue"][k % 13]
    crash = kind.endswith("-crash")
    if crash:
        kind = kind[:-6]
    to = rng.randint(2, 9)
    funcs = {"silent": ["silent"], "slow": ["slow", to + 2], "quick": ["slow", max(to - 1, 1) - 0.5], "echo": ["echo"],
             "once": ["seq", [["silent"], ["ok", {"second": True}]]]}
    states = {"Done": {"Type": "Pass", "End": True}, "Caught": {"Type": "Pass", "Parameters": {"caught.$": "$"}, "End": True}}
    top = {}
    expect = {}
    if kind == "task-silent":
        states["A"] = T("silent", TimeoutSeconds=to, Next="Done"); expect = dict(status="FAILED", error="States.Timeout", t=to)
    elif kind == "task-late-reply":
        states["A"] = T("slow", TimeoutSeconds=to, Next="Done"); expect = dict(status="FAILED", error="States.Timeout", t=to)
    elif kind == "task-early-reply":
        states["A"] = T("quick", TimeoutSeconds=to, Next="Done"); expect = dict(status="SUCCEEDED", t=max(to - 1, 1) - 0.5)
    elif kind == "task-retry":
        iv = rng.randint(1, 3)
        states["A"] = T("once", TimeoutSeconds=to, Retry=[{"ErrorEquals": ["States.Timeout"], "IntervalSeconds": iv, "MaxAttempts": 2}], Next="Done")
        expect = dict(status="SUCCEEDED", t=to + iv, requests=[0, to + iv])
    elif kind == "task-catch":
        states["A"] = T("silent", TimeoutSeconds=to, Catch=[{"ErrorEquals": ["States.Timeout"], "Next": "Caught", "ResultPath": "$.e"}], Next="Done")
        expect = dict(status="SUCCEEDED", t=to)
    elif kind == "exec-wait":
        top["TimeoutSeconds"] = to
        states["A"] = {"Type": "Wait", "Seconds": to + 20, "Next": "Done"}; expect = dict(status="FAILED", error="States.Timeout", t=to)
    elif kind == "exec-task":
        top["TimeoutSeconds"] = to
        states["A"] = T("silent", Next="Done"); expect = dict(status="FAILED", error="States.Timeout", t=to)
    elif kind == "exec-fanout":
        top["TimeoutSeconds"] = to
        states["A"] = {"Type": "Parallel", "Branches": [F.chain([("B1", F.W(to + 10))]), F.chain([("B2", T("silent"))])], "Next": "Done"}
        expect = dict(status="FAILED", error="States.Timeout", t=to)
    elif kind == "exec-tie":
        # the Task's own deadline and the execution's deadline coincide: it is the execution that has run out of time, which no handler intercepts
        top["TimeoutSeconds"] = to
        states["A"] = T("silent", TimeoutSeconds=to, Catch=[{"ErrorEquals": ["States.ALL"], "Next": "Caught"}], Next="Done")
        expect = dict(status="FAILED", error="States.Timeout", t=to)
    elif kind == "exec-overdue":
        # the Task event is only handled after BOTH deadlines have passed (the engine was down): still the execution's time-out
        top["TimeoutSeconds"] = to
        states["A"] = T("silent", TimeoutSeconds=max(1, to - 2), Catch=[{"ErrorEquals": ["States.ALL"], "Next": "Caught"}],
                        Retry=[{"ErrorEquals": ["States.Timeout"], "MaxAttempts": 2}], Next="Done")
        expect = dict(status="FAILED", error="States.Timeout", t=to + 3)
    else:
        top["TimeoutSeconds"] = to
        states["A"] = T("silent", Retry=[{"ErrorEquals": ["States.ALL"], "MaxAttempts": 3}, {"ErrorEquals": ["States.Timeout"], "MaxAttempts": 3}],
                        Catch=[{"ErrorEquals": ["States.Timeout"], "Next": "Caught"}, {"ErrorEquals": ["States.ALL"], "Next": "Caught"}], Next="Done")
        expect = dict(status="FAILED", error="States.Timeout", t=to)
    # a preceding step that takes 1 s so that "entry" and "start" differ
    pre = rng.choice([0, 1, 2]) if kind not in ("exec-tie", "exec-overdue") else 0
    asl = dict(top, StartAt="Pre", States=dict(states, Pre=({"Type": "Wait", "Seconds": pre, "Next": "A"} if pre else {"Type": "Pass", "Next": "A"})))
    exec_kind = kind.startswith("exec")
    if not exec_kind:
        expect["t"] += pre
        if "requests" in expect:
            expect["requests"] = [x + pre for x in expect["requests"]]
    elif pre >= to:
        return
    tz = TZS[k % len(TZS)]
    scn = {"machines": {"m": {"asl": asl}}, "funcs": funcs, "starts": [{"machine": "m", "name": "e", "input": {"k": 1}}], "config": {"tz": tz}}
    ctx.evaluation()
    ctx.count("execution_timeout_cases" if exec_kind else "task_timeout_cases")
    case = dict(kind=kind, timeout=to, pre=pre, tz=tz, machine=asl)
    ctx.nontrivial(case)
    hooks = []
    if crash:
        # the engine dies (and is restarted 1 s later) once the request has reached the worker: the Task event is redelivered
        def install(run):
            state = {"done": False}

            def on_step(world, act):
                if not state["done"] and any(wk.requests for wk in world.workers.values()):
                    state["done"] = True
                    world.crash_engine("i1")
                    world.clock.now += 1
                    world.start_engine("i1")
            run.world.step_hooks.append(on_step)
        hooks.append(install)
        case["crash_after_request"] = True
        ctx.count("timeout_cases_with_crash_and_redelivery")
    if kind == "exec-overdue":
        def install_down(run):
            state = {"done": False}

            def on_step(world, act):
                # after the start event was handled the Task's event is waiting in the instance queue: the engine dies and comes back too late
                if not state["done"] and act.kind == "deliver":
                    state["done"] = True
                    world.crash_engine("i1")
                    world.clock.now += to + 3
                    world.start_engine("i1")
            run.world.step_hooks.append(on_step)
        hooks.append(install_down)
        ctx.count("timeout_cases_with_crash_and_redelivery")
    run = S.execute(scn, seed=ctx.seed, hooks=hooks)
    try:
        st, out, err, t = run.outcomes.get(run.execs[0], ("NONE", None, None, None))
        wit = S.witness_of(run, dict(case=case, expected=expect, engine=dict(status=st, error=err, t=(t - EPOCH0) if t else None),
                                      requests={fn: [r["t"] for r in rs] for fn, rs in run.requests.items()}))
        mech = None
        if exec_kind and kind == "exec-fanout":
            mech = "several-unhandled-failures-end-the-execution-twice"
        if st != expect["status"] or (expect.get("error") and err != expect["error"]):
            ctx.violation("timeout-outcome", wit, None)
        elif t is None or abs((t - EPOCH0) - expect["t"]) > 1e-6:
            ctx.violation("timeout-fired-at-wrong-instant" if (t and (t - EPOCH0) >= expect["t"]) else "timeout-fired-EARLY", wit, None)
        if "requests" in expect:
            got = sorted(r["t"] for rs in run.requests.values() for r in rs)
            if len(got) != len(expect["requests"]) or any(abs(a - b) > 1e-6 for a, b in zip(got, expect["requests"])):
                ctx.violation("retried-request-instants", wit, None)
        # C: nothing fires afterwards, nothing is left armed
        for v in run.violations:
            if v["rule"].startswith(("A4-", "N-second-terminal", "R-terminal-record-changed", "H-events-after-terminal", "H-multiple")):
                ctx.violation("after-timeout:" + v["rule"], S.witness_of(run, dict(case=case, violation=v)), mech)
        if getattr(run, "late_notifications", None) or getattr(run, "late_ops", None):
            ctx.violation("cancelled-or-superseded-timer-had-an-effect", wit, mech)
        if ctx.counters["evaluations"] % 29 == 1:
            ctx.sample(dict(case=dict(kind=kind, timeout=to, pre=pre, tz=tz), expected=expect, engine=dict(status=st, error=err, t=(t - EPOCH0) if t else None)))
    finally:
        S.close(run)


def run(ctx):
    check_parser(ctx)
    choice_instant_cases(ctx)
    sync_call_timer_cases(ctx)
    n_wait = ctx.pick(400, 40000)
    for k in range(n_wait):
        if ctx.mine(k):
            wait_case(ctx, ctx.rng("wait", k), k)
    n_to = ctx.pick(270, 26000)
    for k in range(n_to):
        if ctx.mine(k):
            timeout_case(ctx, ctx.rng("to", k), k)
    for k in range(ctx.pick(90, 2000)):
        if ctx.mine(k):
            fanout_wait_case(ctx, ctx.rng("fw", k), k)


def witnesses(ctx):
    """The witnesses of the two repaired parser defects are ordinary regression cases."""
    from asl_workflow_engine.state_engine import parse_rfc3339_datetime
    compare_ts(ctx, parse_rfc3339_datetime, "2024-02-29T12:34:56.123456789Z", family="fraction>6")
    compare_ts(ctx, parse_rfc3339_datetime, "2024-02-29T12:34:56+05:30")


def replay(ctx, doc):
    w = doc["witness"]
    print(json.dumps(w, indent=1)[:3000])
    if "timestamp" in w:
        from asl_workflow_engine.state_engine import parse_rfc3339_datetime
        compare_ts(ctx, parse_rfc3339_datetime, w["timestamp"], family=w.get("family", "offset"))
    elif "operator" in w and "a" in w:
        from lsfverif.sim import mini
        rule = {"Variable": "$.a", (w["operator"] + "Path" if w.get("by_path") else w["operator"]): ("$.b" if w.get("by_path") else w["b"]), "Next": "Y"}
        asl = {"StartAt": "C", "States": {"C": {"Type": "Choice", "Choices": [rule], "Default": "N"}, "Y": {"Type": "Pass", "Result": "Y", "End": True},
                                          "N": {"Type": "Pass", "Result": "N", "End": True}}}
        res = mini.run(asl, {"a": w["a"], "b": w["b"]})
        print("engine now:", res["status"], res.get("output"), "expected:", w["expected"], "instants:", R.parse_ts(w["a"]), R.parse_ts(w["b"]))
        if res.get("output") != w["expected"]:
            ctx.violation("choice-compares-timestamps-by-something-else-than-their-instants", w, None)
