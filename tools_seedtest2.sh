#!/bin/bash
# Run checks against a seeded change in a scratch worktree (never in /repo): tools_seedtest2.sh <seed dir under /verif/seeded> <check ids...>
d=$1; shift
WT=/tmp/lsf-seedtest-wt
git -C /repo worktree remove --force $WT >/dev/null 2>&1
git -C /repo worktree add --detach $WT HEAD -q || exit 3
( cd $WT && git apply /verif/seeded/$d/patch.diff ) || { echo "PATCH-DOES-NOT-APPLY $d"; git -C /repo worktree remove --force $WT; exit 3; }
for c in "$@"; do
  LSF_REPO=$WT LSF_EVIDENCE_DIR=/tmp/lsf-seedtest-ev /verif/check $c --tier quick 2>&1 | grep -E "VIOLATION|HELD|INCONCLUSIVE" | head -4 | cut -c1-260
done
git -C /repo worktree remove --force $WT
