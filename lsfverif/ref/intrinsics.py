"""
Reference evaluator for States Language intrinsic functions (spec appendix B + the AWS descriptions of the
functions the engine supports).  Independent tokenizer (recursive descent over the call syntax) and evaluator.

Results may be *patterns* where the text leaves the exact value open:
   Unordered(list)   any permutation                     (States.ArrayUnique)
   SplitOf(list)     equal modulo empty-string members   (States.StringSplit with adjacent separators)
   JsonText(value)   a string that parses to value       (States.JsonToString)
   UUIDPAT           any version-4 UUID string
A pattern that flows into another function makes that call Unspec (its spelling/order is not determined).
"""
import json, base64, hashlib, re
from lsfverif.ref import asl as R


class IFail(Exception):
    """The reference says: States.IntrinsicFailure."""


class Unspec(Exception):
    pass


class Pattern(object):
    pass


class Unordered(Pattern):
    def __init__(self, items):
        self.items = items


class SplitOf(Pattern):
    def __init__(self, items):
        self.items = items


class JsonText(Pattern):
    def __init__(self, value):
        self.value = value


class _UUID(Pattern):
    pass


UUIDPAT = _UUID()
_UUID_RE = re.compile(r"[0-9a-f]{8}-[0-9a-f]{4}-4[0-9a-f]{3}-[89ab][0-9a-f]{3}-[0-9a-f]{12}")


def canon(x):
    return json.dumps(x, sort_keys=True)


def has_pattern(x):
    if isinstance(x, Pattern):
        return True
    if isinstance(x, list):
        return any(has_pattern(v) for v in x)
    if isinstance(x, dict):
        return any(has_pattern(v) for v in x.values())
    return False


def pmatch(pat, got):
    if isinstance(pat, Unordered):
        return isinstance(got, list) and not has_pattern(pat.items) and sorted(canon(v) for v in pat.items) == sorted(canon(v) for v in got) \
            and all(type(a) == type(b) for a, b in zip(sorted(pat.items, key=canon), sorted(got, key=canon)))
    if isinstance(pat, SplitOf):
        return isinstance(got, list) and all(isinstance(s, str) for s in got) and [s for s in got if s != ""] == [s for s in pat.items if s != ""]
    if isinstance(pat, JsonText):
        if not isinstance(got, str):
            return False
        try:
            return R.matches(pat.value, json.loads(got))
        except ValueError:
            return False
    if isinstance(pat, _UUID):
        return isinstance(got, str) and _UUID_RE.fullmatch(got) is not None
    if isinstance(pat, list):
        return isinstance(got, list) and len(pat) == len(got) and all(pmatch(a, b) for a, b in zip(pat, got))
    if isinstance(pat, dict):
        return isinstance(got, dict) and set(pat) == set(got) and all(pmatch(v, got[k]) for k, v in pat.items())
    return R.matches(pat, got)


def describe(pat):
    if isinstance(pat, Unordered):
        return {"<any order>": [describe(v) for v in pat.items]}
    if isinstance(pat, SplitOf):
        return {"<modulo empty strings>": pat.items}
    if isinstance(pat, JsonText):
        return {"<json text of>": describe(pat.value)}
    if isinstance(pat, _UUID):
        return "<uuid4>"
    if isinstance(pat, list):
        return [describe(v) for v in pat]
    if isinstance(pat, dict):
        return {k: describe(v) for k, v in pat.items()}
    return pat


# ----------------------------------------------------------------------------- tokenizer
_CALL = re.compile(r"\s*States\.([A-Za-z0-9]+)\s*\(")


def skip_ws(s, pos):
    while pos < len(s) and s[pos] in " \t\n":
        pos += 1
    return pos


def parse_call(s, pos=0):
    m = _CALL.match(s, pos)
    if not m:
        raise IFail("not an intrinsic invocation")
    name, pos = m.group(1), m.end()
    args = []
    pos = skip_ws(s, pos)
    if pos < len(s) and s[pos] == ")":
        return ("call", name, args), pos + 1
    while True:
        arg, pos = parse_arg(s, pos)
        args.append(arg)
        pos = skip_ws(s, pos)
        if pos >= len(s):
            raise IFail("unterminated call")
        if s[pos] == ",":
            pos = skip_ws(s, pos + 1)
            continue
        if s[pos] == ")":
            return ("call", name, args), pos + 1
        raise IFail("unexpected character %r" % s[pos])


def parse_arg(s, pos):
    if pos >= len(s):
        raise IFail("missing argument")
    c = s[pos]
    if c == "'":
        out, i = [], pos + 1
        while True:
            if i >= len(s):
                raise IFail("unterminated string")
            if s[i] == "\\" and i + 1 < len(s):
                out.append(("esc", s[i + 1])); i += 2; continue
            if s[i] == "'":
                return ("str", out), i + 1
            out.append(("chr", s[i])); i += 1
    if s.startswith("States.", pos):
        return parse_call(s, pos)
    m = re.compile(r"[^\s,()]+").match(s, pos)
    if not m:
        raise IFail("bad argument")
    tok = m.group(0)
    if tok.startswith("$"):
        m2 = re.compile(r"\$\$?(\.[A-Za-z_][A-Za-z0-9_]*|\[\d+\])*").match(s, pos)
        if m2.end() != m.end():
            raise Unspec("path outside the simple grammar")
        return ("path", m2.group(0)), m2.end()
    return ("lit", tok), m.end()


def string_parts(parts):
    """[(kind, ch)] with kind raw|lit: escaped characters are literals (never format metacharacters)."""
    out = []
    for kind, ch in parts:
        if kind == "chr":
            out.append(("raw", ch))
        elif ch in "'\\":
            out.append(("lit", ch))
        elif ch in "{}":
            out.append(("litbrace", ch))
        else:
            raise Unspec("escape \\%s" % ch)
    return out


class FmtStr(str):
    parts = None


def evaluate(expr, data, context):
    ast, end = parse_call(expr)
    if expr[end:].strip():
        raise IFail("trailing text")
    return ev(ast, data, context)


def ev(a, data, context):
    if a[0] == "str":
        parts = string_parts(a[1])
        s = FmtStr("".join(ch for _, ch in parts))
        s.parts = parts
        return s
    if a[0] == "call":
        return call(a[1], [ev(x, data, context) for x in a[2]])
    if a[0] == "path":
        try:
            return R.apply_path(data, context, a[1])
        except R.NoMatch:
            raise R.StateError("States.ParameterPathFailure")
    tok = a[1]
    if tok == "null":
        return None
    if tok == "true":
        return True
    if tok == "false":
        return False
    if re.fullmatch(r"-?(0|[1-9]\d*)", tok):
        return int(tok)
    if re.fullmatch(r"-?(0|[1-9]\d*)\.\d+([eE][+-]?\d+)?", tok):
        return float(tok)
    if re.fullmatch(r"[-+]?[\d.eE+-]+|[-+]?(inf|nan|infinity)", tok, re.I):
        raise Unspec("numeric spelling outside JSON")
    raise IFail("bad literal %r" % tok)


def is_int(x):
    return isinstance(x, int) and not isinstance(x, bool)


ARITY = {"Format": (1, None), "StringToJson": (1, 1), "JsonToString": (1, 1), "Array": (0, None), "ArrayPartition": (2, 2),
         "ArrayContains": (2, 2), "ArrayRange": (3, 3), "ArrayGetItem": (2, 2), "ArrayLength": (1, 1), "ArrayUnique": (1, 1),
         "Base64Encode": (1, 1), "Base64Decode": (1, 1), "Hash": (2, 2), "JsonMerge": (3, 3), "MathRandom": (2, 3), "MathAdd": (2, 2),
         "StringSplit": (2, 2), "UUID": (0, 0)}


def call(name, a):
    n = len(a)
    if name not in ARITY:
        raise IFail("unknown function")
    lo, hi = ARITY[name]
    if n < lo or (hi is not None and n > hi):
        raise IFail("%s: wrong number of arguments" % name)
    if name != "Format":
        for x in a:
            if isinstance(x, FmtStr) and any(k == "litbrace" for k, _ in (x.parts or [])):
                raise Unspec("escaped brace outside States.Format")
        a = [str(x) if isinstance(x, FmtStr) else x for x in a]
    else:
        for x in a[1:]:
            if isinstance(x, FmtStr) and any(k == "litbrace" for k, _ in (x.parts or [])):
                raise Unspec("escaped brace in a non-template argument of States.Format")
        a = a[:1] + [str(x) if isinstance(x, FmtStr) else x for x in a[1:]]
    if name == "Array":
        return list(a)
    if any(has_pattern(x) for x in a):
        raise Unspec("argument whose spelling/order is not determined")
    if name == "Format":
        if not isinstance(a[0], str):
            raise IFail("Format template")
        parts = getattr(a[0], "parts", None) or [("raw", c) for c in a[0]]
        out, i, k = [], 0, 1
        while i < len(parts):
            kind, ch = parts[i]
            if kind == "raw" and ch == "{":
                if i + 1 < len(parts) and parts[i + 1] == ("raw", "}"):
                    if k >= n:
                        raise IFail("too few arguments")
                    v = a[k]; k += 1
                    if isinstance(v, str) or is_int(v):
                        out.append(str(v))
                    else:
                        raise Unspec("Format of a non-string argument")
                    i += 2; continue
                raise IFail("unescaped brace")
            if kind == "raw" and ch == "}":
                raise IFail("unescaped brace")
            out.append(ch); i += 1
        if k != n:
            raise Unspec("unused Format arguments")
        return "".join(out)
    if name == "StringToJson":
        if not isinstance(a[0], str):
            raise IFail("")
        try:
            v = json.loads(a[0])
        except ValueError:
            raise IFail("")
        if isinstance(v, float) and v != v:
            raise Unspec("NaN")
        return v
    if name == "JsonToString":
        return JsonText(a[0])
    if name == "ArrayPartition":
        if not isinstance(a[0], list) or not is_int(a[1]) or a[1] <= 0:
            if isinstance(a[1], bool) and isinstance(a[0], list):
                raise IFail("boolean chunk size")
            raise IFail("")
        return [a[0][i:i + a[1]] for i in range(0, len(a[0]), a[1])]
    if name == "ArrayContains":
        if not isinstance(a[0], list):
            raise IFail("")
        def jeq(u, v):
            """JSON value equality: numbers by value (1 == 1.0), booleans are not numbers, containers member-wise."""
            if isinstance(u, bool) or isinstance(v, bool):
                return isinstance(u, bool) and isinstance(v, bool) and u == v
            if R.is_num(u) and R.is_num(v):
                return u == v
            if isinstance(u, list) and isinstance(v, list):
                return len(u) == len(v) and all(jeq(x, y) for x, y in zip(u, v))
            if isinstance(u, dict) and isinstance(v, dict):
                return set(u) == set(v) and all(jeq(u[k], v[k]) for k in u)
            return type(u) == type(v) and u == v
        return any(jeq(x, a[1]) for x in a[0])
    if name == "ArrayRange":
        if not all(is_int(x) for x in a) or a[2] == 0:
            raise IFail("")
        # "the first argument is the first element, the second the final element, the third the increment": inclusive in either direction
        r = list(range(a[0], a[1] + 1, a[2])) if a[2] > 0 else list(range(a[0], a[1] - 1, a[2]))
        if len(r) > 1000:
            raise IFail("")
        return r
    if name == "ArrayGetItem":
        if not isinstance(a[0], list) or not is_int(a[1]) or a[1] < 0 or a[1] >= len(a[0]):
            raise IFail("")
        return a[0][a[1]]
    if name == "ArrayLength":
        if not isinstance(a[0], list):
            raise IFail("")
        return len(a[0])
    if name == "ArrayUnique":
        if not isinstance(a[0], list):
            raise IFail("")
        nums = [x for x in a[0] if R.is_num(x)]
        if any(type(x) != type(y) and x == y for x in nums for y in nums):
            raise Unspec("equal numbers with different spellings (1 and 1.0)")
        seen, out = set(), []
        for x in a[0]:
            k = ("num", float(x)) if R.is_num(x) else (type(x).__name__, canon(x))
            if k not in seen:
                seen.add(k); out.append(x)
        return Unordered(out)
    if name == "Base64Encode":
        if not isinstance(a[0], str):
            raise IFail("")
        if len(a[0]) > 10000:
            raise Unspec("length limit")
        return base64.b64encode(a[0].encode()).decode()
    if name == "Base64Decode":
        if not isinstance(a[0], str):
            raise IFail("")
        try:
            return base64.b64decode(a[0].encode(), validate=True).decode()
        except Exception:
            raise Unspec("invalid base64 / not utf-8")
    if name == "Hash":
        algs = {"MD5": "md5", "SHA-1": "sha1", "SHA-256": "sha256", "SHA-384": "sha384", "SHA-512": "sha512"}
        if not isinstance(a[0], str) or not isinstance(a[1], str) or a[1] not in algs:
            raise IFail("")
        return hashlib.new(algs[a[1]], a[0].encode()).hexdigest()
    if name == "JsonMerge":
        if a[2] is not False or not isinstance(a[0], dict) or not isinstance(a[1], dict):
            raise IFail("")
        return {**a[0], **a[1]}
    if name == "MathRandom":
        raise Unspec("random")
    if name == "MathAdd":
        if not is_int(a[0]) or not is_int(a[1]):
            raise IFail("")
        return a[0] + a[1]
    if name == "StringSplit":
        if not isinstance(a[0], str) or not isinstance(a[1], str):
            raise IFail("")
        if a[1] == "":
            raise Unspec("empty separator")
        out, cur = [], ""
        for ch in a[0]:
            if ch in a[1]:
                out.append(cur); cur = ""
            else:
                cur += ch
        out.append(cur)
        return SplitOf(out)
    if name == "UUID":
        return UUIDPAT
    raise IFail("unknown function")


def intrinsic_hook(expr, data, context):
    """Adapter for ref.asl.eval_template(intrinsic=...)."""
    try:
        return evaluate(expr, data, context)
    except IFail:
        raise R.StateError("States.IntrinsicFailure")
    except Unspec as u:
        raise R.Unspecified("intrinsic: %s" % u)
