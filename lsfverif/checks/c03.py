"""
C03  Events are acked once, after their consequences are issued; nothing leaks.

Monitor (mon.monitors.AckMonitor) on the simulated broker's operation log, evaluated at EVERY engine broker operation:
  A1  a delivery acknowledged twice / an unknown tag acknowledged / an ack that removed other deliveries
  A2  carrier conservation: a RUNNING execution always has a queued or unacknowledged event, an outstanding request or an armed timer
  A3  after the event a step is about was acknowledged, no further event / status-change publish for that execution in that step
  A4  drain at quiescence: no unacknowledged message, no per-execution engine state (unacknowledged_messages, pending_requests,
      cancellers, orphaned_responses, branch_metadata), no armed non-housekeeping timer, nothing left in the event/reply queues
"""
import json, random, copy
from lsfverif.gen import families as F
from lsfverif.mon import scenario as S, classify as C
from lsfverif.checks import _sched
from lsfverif.sim import fakepika
from lsfverif.sim.world import EVENTQ

ID = "C03"
ENGINE = "simworld"
LEVEL = "exploration"
RULE = ("case = (scenario, schedule) as for C02 (families sequential / fan-out ok / fan-out with one unhandled failure, 1..4 concurrent executions) plus "
        "poison messages (non-JSON, JSON without context, unknown state machine) delivered beside healthy executions; every engine basic_publish/basic_ack "
        "is one evaluation point of A1-A3 (counted as obs:engine_ops_checked). non-trivial = run with >=2 racing deliveries/replies/timers; distinct by "
        "hash of (scenario, action sequence)")
ASSUMPTIONS = ["acknowledgements of *other* (held sibling) events inside a step are not ordering violations by themselves; only A2/A3 decide",
               "drain is checked after the orphan-retention window and again after the TTL back-stop period", "simulated broker fidelity (DESIGN.md section 3)"]
FLOORS = {"evaluations": 400, "schedules": 300, "nontrivial": 200, "obs:engine_ops_checked": 20000, "obs:acks": 8000, "obs:drain_checks": 400, "poison_messages": 40}
SHARDS = {"quick": 16, "thorough": 16}
TECHNIQUE = "online monitor over the broker operation log (exactly-once ack, carrier conservation, subject-event ordering at every engine operation; drain at quiescence)"
LEVEL_TEXT = ("Every basic_publish/basic_ack the real engine issues is checked against the acknowledgement rules while generated scenarios run under many "
              "schedules; at quiescence the engine's dictionaries, channel and queues must be empty. Held = no rule broken at any operation of any run, up to the listed finding.")
LEVEL_NOTE = "history is recorded at the pika API boundary of the simulated broker; timers are attributed to executions through the step that armed them"
DESIGN_REF = "DESIGN.md section 6, C03"

RULES = ("A1-", "A2-", "A3-", "A4-", "A5-")


def classify(run, v):
    m = C.classify_ack_violation(run, v)
    if m is None and v["rule"].startswith("A5-") and v.get("inner_end_join"):
        # the listed protocol defect, nested form: an inner join with End:true acknowledges its held branch events when IT completes, although its
        # result then only lives in the enclosing join's memory
        m = "termination-acks-held-events-before-consequence"
    return m


def judge(ctx, run, meta, sched):
    _sched.judge_rules(ctx, run, meta, sched, RULES, classify)
    if run.seen.get("event_deliveries", 0) + run.seen.get("reply_deliveries", 0) >= 4:
        ctx.nontrivial([_sched.scn_key(run.scn), _sched.schedule_hash(run)])
    if ctx.counters["evaluations"] % 211 == 1:
        ops = [(r["op"], r.get("routing_key") or r.get("queue"), r.get("tag")) for r in run.world.engine_ops() if r["op"] in ("deliver", "basic_publish", "basic_ack")][:40]
        ctx.sample(dict(family=meta.get("family"), schedule=sched, engine_ops_head=ops))


def judge_path_failure(ctx, run, meta, sched):
    judge(ctx, run, meta, sched)
    for arn in getattr(run, "never_terminated", []) or []:
        ctx.violation("path-failure-left-the-execution-without-terminal-status", S.witness_of(run, dict(arn=arn, meta=meta, schedule_name=sched)), None)
    seq = list(run.status_seq.values())
    if seq and seq[0] and seq[0][-1] != "FAILED":
        ctx.violation("path-that-matches-nothing-did-not-fail-the-execution", S.witness_of(run, dict(meta=meta, statuses=seq[0])), None)


def poison_hook(kind):
    def hook(run):
        w = run.world
        ch = w.client_channel()
        q = EVENTQ
        props = lambda mid: fakepika.BasicProperties(message_id=mid, content_type="application/json", delivery_mode=2)
        if kind == "nonjson":
            ch.basic_publish("", q, "{not json", props("poison-1"))
        elif kind == "nocontext":
            ch.basic_publish("", q, json.dumps({"data": {}}), props("poison-2"))
        elif kind == "unknown-machine":
            ch.basic_publish("", q, json.dumps({"data": {}, "context": {"StateMachine": {"Id": "arn:aws:states:local:0123456789:stateMachine:nope"}}}), props("poison-3"))
        elif kind == "array":
            ch.basic_publish("", q, json.dumps([1, 2]), props("poison-4"))
        elif kind == "nostatemachine":
            ch.basic_publish("", q, json.dumps({"data": {}, "context": {}}), props("poison-5"))
        elif kind == "nonutf8":
            ch.basic_publish("", q, json.dumps({"data": {}, "context": {}}).encode("utf-16"), props("poison-6"))
        elif kind == "badbytes":
            ch.basic_publish("", q, b"\xff\xfe\x00{", props("poison-7"))
        elif kind == "empty":
            ch.basic_publish("", q, b"", props("poison-8"))
        elif kind == "instance-queue":
            ch.basic_publish("", q + "-i1", "{not json", props("poison-9"))
        elif kind == "reply-queue":
            ch.basic_publish("", "asl_workflow_reply_to-i1", b"\xff\xfe", fakepika.BasicProperties(correlation_id="nobody"))
        elif kind == "noid-poison":
            # events from a client that sets no AMQP message id: poison ones ...
            for body in ([1, 2], {"data": {}, "context": 5}):
                ch.basic_publish("", q, json.dumps(body), props(None))
        elif kind == "noid-starts":
            # ... and two perfectly good start events (a machine that waits, a machine that calls a task)
            for nm, asl in (("noidw", {"StartAt": "W", "States": {"W": {"Type": "Wait", "Seconds": 1, "End": True}}}),
                            ("noidt", {"StartAt": "T", "States": {"T": {"Type": "Task", "Resource": "arn:aws:rpcmessage:local::function:echo", "End": True}}})):
                arn = w.create_machine(nm, asl)
                for j in range(2):
                    w.start_event(arn, "%s%d" % (nm, j), {"j": j}, message_id="to-be-removed-%s%d" % (nm, j))
            for qq in w.broker.queues.values():
                for m in qq.messages:
                    if str(m.props.message_id).startswith("to-be-removed-"):
                        m.props.message_id = None
        elif kind in ("reply-twice", "reply-thrice"):
            # replies nobody waits for (yet), several with the same correlation id (a worker that answered, died before acknowledging its request and
            # answered again): each of them is a delivery that has to be acknowledged in the end
            for j in range(2 if kind == "reply-twice" else 3):
                ch.basic_publish("", "asl_workflow_reply_to-i1", json.dumps({"answer": j}), fakepika.BasicProperties(correlation_id="nobody-yet", content_type="application/json"))
    return hook


def run(ctx):
    n_cases = ctx.pick(200, 3000)
    n_random = ctx.pick(3, 12)
    poisons = ["nonjson", "nocontext", "unknown-machine", "array", "nostatemachine", "nonutf8", "badbytes", "empty", "instance-queue", "reply-queue", "reply-twice", "reply-thrice", "noid-poison", "noid-starts"]
    for k in range(n_cases):
        if not ctx.mine(k):
            continue
        rng = ctx.rng("case", k)
        fam = ["sequential", "fanout-none", "fanout-one"][k % 3]
        scn, meta = F.scenario(rng, fam, n_exec=rng.randint(1, ctx.pick(3, 5)), via=("event", "rest") if k % 5 == 0 else ("event",))
        ctx.count("family:" + fam)
        if k % 4 == 0:
            kind = poisons[(k // 4) % len(poisons)]
            ctx.count("poison_messages")
            meta = dict(meta, poison=kind)
            # poison beside healthy executions
            for s in range(n_random + 1):
                pol = None if s == 0 else (lambda w, r=random.Random(k * 1000 + s): __import__("lsfverif.sim.world", fromlist=["make_random"]).make_random(r))
                run = S.execute(scn, policy=pol, seed=ctx.seed, hooks=[poison_hook(kind)])
                try:
                    _sched.observe(ctx, run)
                    ctx.distinct("schedules", [_sched.scn_key(scn), kind, _sched.schedule_hash(run)])
                    judge(ctx, run, meta, "poison-%d" % s)
                finally:
                    S.close(run)
        else:
            _sched.run_schedules(ctx, scn, meta, judge, n_random, ["c03", k])
    # exhaustive schedules of small joins
    for j, (kind, n, end) in enumerate([("Parallel", 2, True), ("Parallel", 2, False), ("Map", 2, False), ("Parallel", 3, False)]):
        if not ctx.mine(j):
            continue
        names = F.Names()
        st = {"Type": "Parallel", "Branches": [F.chain([(names(), F.T("echo"))]) for _ in range(n)]} if kind == "Parallel" else \
            {"Type": "Map", "ItemsPath": "$.items", "ItemProcessor": F.chain([("I1", F.T("echo"))])}
        asl = F.chain([("Fan", st)] + ([] if end else [("After", F.P())]))
        scn = {"machines": {"m": {"asl": asl}}, "funcs": dict(F.FUNCS), "starts": [{"machine": "m", "name": "e0", "input": {"items": F.items(n, depth=0)}}]}
        _sched.run_dfs(ctx, scn, dict(family="dfs-%s-%d-%s" % (kind, n, "end" if end else "next"), kind=kind), judge, ctx.pick(150, 4000))

    # fan-outs with nothing to launch, as the last state of a branch: the event that entered them must still be acknowledged at the join
    emptymap = {"Type": "Map", "ItemsPath": "$.none", "ItemProcessor": F.chain([("I1", F.T("echo"))])}
    emptypar = {"Type": "Parallel", "Branches": []}
    for j, (label, inner) in enumerate([("empty-map-ends-branch", emptymap), ("empty-parallel-ends-branch", emptypar)]):
        for outer in ("Parallel", "Map"):
            if not ctx.mine(j):
                continue
            br = F.chain([("B1", F.T("echo")), ("B2", dict(inner))])
            st = {"Type": "Parallel", "Branches": [br, F.chain([("C1", F.T("echo"))])]} if outer == "Parallel" else \
                {"Type": "Map", "ItemsPath": "$.items", "ItemProcessor": br}
            asl = F.chain([("Fan", st), ("After", F.T("echo"))])
            scn = {"machines": {"m": {"asl": asl}}, "funcs": dict(F.FUNCS), "starts": [{"machine": "m", "name": "e0", "input": {"none": [], "items": [dict(it, none=[]) for it in F.items(2, depth=0)]}}]}
            ctx.count("family:" + label)
            _sched.run_schedules(ctx, scn, dict(family=label, kind=outer), judge, n_random, ["c03-empty", j, outer])

    # a path that matches nothing, at every place a state evaluates one and for every state type - also where the evaluation happens in a timer or reply
    # callback (Wait, Task): the event is still acknowledged, after the terminal status, and nothing is left
    k = 0
    for typ in ("Pass", "Task", "Wait", "Choice", "Succeed", "Parallel", "Map"):
        for field in ("InputPath", "OutputPath"):
            for path in ("$.nope", "$$.Execution.Input.nope", "$$.Nope.x"):
                for where in ("top", "branch"):
                    k += 1
                    if not ctx.mine(k):
                        continue
                    if typ == "Pass":
                        st = F.P()
                    elif typ == "Task":
                        st = F.T("echo")
                    elif typ == "Wait":
                        st = F.W(2)
                    elif typ == "Choice":
                        st = {"Type": "Choice", "Choices": [{"Variable": "$.x", "IsPresent": True, "Next": "Z"}], "Default": "Z"}
                    elif typ == "Succeed":
                        st = {"Type": "Succeed"}
                    elif typ == "Parallel":
                        st = {"Type": "Parallel", "Branches": [F.chain([("Q1", F.T("echo"))])]}
                    else:
                        st = {"Type": "Map", "ItemsPath": "$.items", "ItemProcessor": F.chain([("I1", F.T("echo"))])}
                    st = dict(st); st[field] = path
                    if typ not in ("Choice", "Succeed"):
                        st["Next"] = "Z"
                    inner = {"StartAt": "Bad", "States": {"Bad": st, "Z": {"Type": "Pass", "End": True}}}
                    if where == "top":
                        asl = inner
                    else:
                        asl = F.chain([("Fan", {"Type": "Parallel", "Branches": [inner, F.chain([("Sib", F.T("slow3"))])]}), ("After", F.P())])
                    scn = {"machines": {"m": {"asl": asl}}, "funcs": dict(F.FUNCS), "starts": [{"machine": "m", "name": "e0", "input": {"x": 1, "items": F.items(2, depth=0)}}]}
                    ctx.count("family:path-failure")
                    _sched.run_schedules(ctx, scn, dict(family="path-failure", state_type=typ, field=field, path=path, where=where), judge_path_failure, 1, ["c03-path", k])

    # recorded regression scenarios (scenario + schedule): defects found elsewhere whose symptom is this property's
    import glob, os
    for j, f in enumerate(sorted(glob.glob(os.path.join(os.path.dirname(os.path.dirname(os.path.abspath(__file__))), "regress", "C03", "*.json")))):
        if not ctx.mine(j):
            continue
        doc = json.load(open(f))
        ctx.evaluation(); ctx.count("recorded_regression_scenarios")
        run = S.execute(doc["scenario"], labels=doc["schedule"], seed=doc.get("seed", 0))
        try:
            _sched.observe(ctx, run)
            if run.error:
                ctx.violation("exception-escaped-the-engine", S.witness_of(run, dict(regression=os.path.basename(f))), None)
            for v in run.violations:
                if v["rule"].startswith("A1-"):
                    ctx.violation(v["rule"], S.witness_of(run, dict(violation=v, regression=os.path.basename(f))), None)
        finally:
            S.close(run)


def witness_scenario():
    names = F.Names()
    st = {"Type": "Parallel", "Branches": [F.chain([(names(), F.T("echo"))]) for _ in range(2)]}
    asl = F.chain([("Fan", st)])
    return {"machines": {"m": {"asl": asl}}, "funcs": dict(F.FUNCS), "starts": [{"machine": "m", "name": "e0", "input": {"x": 1}}]}


def witnesses(ctx):
    run = S.execute(witness_scenario(), seed=ctx.seed)
    try:
        vs = [v for v in run.violations if v["rule"].startswith(("A2", "A3")) and classify(run, v) == "termination-acks-held-events-before-consequence"]
        ctx.witness("termination-acks-held-events-before-consequence", bool(vs),
                    dict(rules=sorted({v["rule"] for v in vs}), ops=[(r["op"], r.get("routing_key") or r.get("queue"), r.get("tag")) for r in run.world.engine_ops()][-8:]))
    finally:
        S.close(run)


def replay(ctx, doc):
    w = doc["witness"]
    run = S.execute(w["scenario"], labels=w.get("schedule"), seed=w.get("seed", 0))
    for r in run.world.engine_ops():
        if r["op"] in ("deliver", "basic_publish", "basic_ack"):
            print(r["n"], r["step"], r["op"], r.get("queue") or r.get("routing_key"), r.get("tag"), r.get("message_id"))
    judge(ctx, run, w.get("meta") or {}, "replay")
    S.close(run)
