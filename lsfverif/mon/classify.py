"""
Known-finding predicates for violations raised by the online monitors.  A predicate looks only at causal facts
recorded in the trace (which step, which callback, which broker operations followed), never at seeds or texts.
"""
import json
from lsfverif.mon.monitors import TERMINAL


def terminal_status_published_in_step(run, step, arn=None):
    for n in run.world.notifications:
        if n["step"] == step and n["body"]["detail"]["status"] in TERMINAL and (arn is None or n["body"]["detail"]["executionArn"] == arn):
            return True
    return False


def join_publish_in_step(run, step):
    """An event published by the engine in this step after acks: the join's successor / re-entry event."""
    acked = False
    for r in run.world.broker.oplog:
        if r["step"] != step or not (r["conn"] or "").startswith("engine:"):
            continue
        if r["op"] == "basic_ack":
            acked = True
        elif r["op"] == "basic_publish" and acked:
            return True
    return False


def acks_in_step(run, step):
    return [r for r in run.world.broker.oplog if r["step"] == step and r["op"] == "basic_ack" and (r["conn"] or "").startswith("engine:")]


def classify_ack_violation(run, v):
    """A2/A3 findings."""
    rule = v["rule"]
    if rule.startswith("A2") or rule.startswith("A3"):
        n_acks = len(acks_in_step(run, v["step"]))
        # the termination protocol (join with End:true, or end_execution -> check_pending_results on failure) acknowledges the
        # held branch events, and only then publishes the terminal status / the enclosing join's successor event
        if n_acks >= 1 and (terminal_status_published_in_step(run, v["step"]) or (rule.startswith("A3") and n_acks >= 2)):
            return "termination-acks-held-events-before-consequence"
        if rule.startswith("A2") and n_acks >= 2 and join_publish_in_step(run, v["step"]):
            return "termination-acks-held-events-before-consequence"
    return None


def is_delegate_step(run, step):
    info = run.world.step_info.get(step, {})
    return info.get("kind") == "timer" and "_delegate" in str(info.get("cb"))


def classify_history_violation(run, v):
    if v["rule"] in ("H-events-after-terminal",) and is_delegate_step(run, v["step"]):
        return "deferred-delegate-after-ack"
    return None


def handled_fanout_failure(run, arn):
    """History shows a Parallel/Map failure that did not end the execution at once (Catch or Retry took it)."""
    h = run.histories.get(arn) or []
    types = [e.get("type") for e in h]
    for i, t in enumerate(types):
        if t in ("ParallelStateFailed", "MapStateFailed"):
            rest = types[i + 1:]
            if rest and rest[0] not in ("ExecutionFailed",):
                return True
    return False
