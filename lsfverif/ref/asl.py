"""
Reference model of the Amazon States Language, written from the specification text
(https://states-language.net/spec.html) and independent of the engine's code.

Where the text is silent the model raises Unspecified and the comparison is skipped.
Where several behaviours are admissible (which failing branch of a fan-out "wins"; the error name of an
unresolvable path inside a Payload Template) the interpreter asks a Variant object, and `outcomes()`
enumerates all variants, so the oracle is a *set* of admissible outcomes.
"""
import copy, json, re, datetime as _dt

DATA_LIMIT = 262144


class StateError(Exception):
    def __init__(self, name, cause=""):
        super().__init__(name, cause)
        self.name, self.cause = name, cause


class Unspecified(Exception):
    pass


class NoMatch(Exception):
    pass


class _Wild(object):
    """Matches any value (used for human-readable 'Cause' texts); as a dict member it may also be absent."""
    def __repr__(self):
        return "<ANY>"

    def __deepcopy__(self, memo):
        return self


ANY = _Wild()


def contains_any(v):
    if v is ANY:
        return True
    if isinstance(v, dict):
        return any(contains_any(x) for x in v.values())
    if isinstance(v, list):
        return any(contains_any(x) for x in v)
    return False


def matches(ref, got):
    """Structural equality of JSON values where ref may contain ANY."""
    if ref is ANY:
        return True
    if isinstance(ref, dict):
        if not isinstance(got, dict):
            return False
        for k, v in ref.items():
            if k not in got:
                if v is ANY:
                    continue
                return False
            if not matches(v, got[k]):
                return False
        return all(k in ref for k in got)
    if isinstance(ref, list):
        return isinstance(got, list) and len(ref) == len(got) and all(matches(a, b) for a, b in zip(ref, got))
    if isinstance(ref, bool) or isinstance(got, bool):
        return isinstance(ref, bool) and isinstance(got, bool) and ref == got
    if isinstance(ref, (int, float)) and isinstance(got, (int, float)):
        return ref == got
    return type(ref) == type(got) and ref == got


def show(x):
    return json.dumps(x, default=repr, sort_keys=True)


# ----------------------------------------------------------------------------- reference paths
_TOKEN = re.compile(r"""\.([A-Za-z_][A-Za-z0-9_]*)|\[(\d+)\]|\['((?:[^'\\]|\\.)*)'\]""")


def parse_path(path):
    """'$', '$.a.b', "$['a']", '$.a[0]' -> list of str|int tokens.  Anything else: Unspecified."""
    if not isinstance(path, str) or not path.startswith("$"):
        raise Unspecified("not a reference path: %r" % (path,))
    rest, toks, pos = path[1:], [], 0
    while pos < len(rest):
        m = _TOKEN.match(rest, pos)
        if not m:
            raise Unspecified("path outside the definite grammar: %r" % (path,))
        if m.group(1) is not None:
            toks.append(m.group(1))
        elif m.group(2) is not None:
            toks.append(int(m.group(2)))
        else:
            toks.append(m.group(3).replace("\\'", "'").replace("\\\\", "\\"))
        pos = m.end()
    return toks


def read_path(doc, toks):
    cur = doc
    for t in toks:
        if isinstance(t, int):
            if not isinstance(cur, list) or t >= len(cur):
                raise NoMatch()
            cur = cur[t]
        else:
            if not isinstance(cur, dict) or t not in cur:
                raise NoMatch()
            cur = cur[t]
    return cur


def apply_path(data, context, path):
    """InputPath / OutputPath / '.$' path semantics: null -> {}, '$$' reads the context object."""
    if path is None:
        return {}
    if path.startswith("$$"):
        toks = parse_path(path[1:])
        if toks[:2] == ["Task", "Token"]:
            raise Unspecified("task token")
        doc = context
    else:
        toks = parse_path(path)
        doc = data
    return copy.deepcopy(read_path(doc, toks))


def apply_resultpath(raw_input, result, path):
    if path is None:
        return copy.deepcopy(raw_input)
    if path.startswith("$$"):
        raise StateError("States.ResultPathMatchFailure")
    toks = parse_path(path)
    if not toks:
        return copy.deepcopy(result)
    out = copy.deepcopy(raw_input)
    if not isinstance(out, (dict, list)):
        raise StateError("States.ResultPathMatchFailure")
    cur = out
    for i, t in enumerate(toks):
        last = i == len(toks) - 1
        if isinstance(t, int):
            if not isinstance(cur, list) or t >= len(cur):
                raise StateError("States.ResultPathMatchFailure")
            if last:
                cur[t] = copy.deepcopy(result)
            else:
                cur = cur[t]
        else:
            if not isinstance(cur, dict):
                raise StateError("States.ResultPathMatchFailure")
            if last:
                cur[t] = copy.deepcopy(result)
            else:
                if t not in cur:
                    cur[t] = {}
                cur = cur[t]
    return out


# ----------------------------------------------------------------------------- payload templates
def eval_template(template, data, context, intrinsic=None, path_failure="States.ParameterPathFailure"):
    if template is None:
        return copy.deepcopy(data)

    def walk(t):
        if isinstance(t, dict):
            out = {}
            for k, v in t.items():
                if isinstance(k, str) and k.endswith(".$"):
                    if not isinstance(v, str):
                        raise Unspecified("'.$' member with a non-string value")
                    if k[:-2] in out or (k[:-2] in t):
                        raise Unspecified("template member collision")
                    out[k[:-2]] = eval_value(v)
                else:
                    out[k] = walk(v)
            return out
        if isinstance(t, list):
            return [walk(x) for x in t]
        return copy.deepcopy(t)

    def eval_value(v):
        if v.startswith("$"):
            try:
                return apply_path(data, context, v)
            except NoMatch:
                raise StateError(path_failure)
        if intrinsic is None:
            raise Unspecified("intrinsic function")
        return intrinsic(v, data, context)
    if not isinstance(template, dict):
        raise Unspecified("payload template must be an object")
    return walk(template)


# ----------------------------------------------------------------------------- timestamps
_TS = re.compile(r"(\d{4})-(\d\d)-(\d\d)T(\d\d):(\d\d):(\d\d)(\.\d+)?(Z|[+-]\d\d:\d\d)")


def parse_ts(s):
    """RFC 3339 date-time -> epoch seconds (float).  ValueError if not a timestamp."""
    if not isinstance(s, str):
        raise ValueError(s)
    m = _TS.fullmatch(s)
    if not m:
        raise ValueError(s)
    y, mo, d, h, mi, sec = (int(m.group(i)) for i in range(1, 7))
    frac, off = m.group(7) or "", m.group(8)
    days = (_dt.date(y, mo, d) - _dt.date(1970, 1, 1)).days
    if h > 23 or mi > 59 or sec > 59:
        raise ValueError(s)
    secs = days * 86400 + h * 3600 + mi * 60 + sec + (float("0" + frac) if frac else 0.0)
    if off != "Z":
        oh, om = int(off[1:3]), int(off[4:6])
        if oh > 23 or om > 59:
            raise ValueError(s)
        delta = oh * 3600 + om * 60
        secs -= delta if off[0] == "+" else -delta
    return secs


# ----------------------------------------------------------------------------- choice rules
def is_num(x):
    return isinstance(x, (int, float)) and not isinstance(x, bool)


def wildcard_match(pattern, s):
    """'*' matches zero or more characters, backslash escapes the next character, nothing else is special."""
    rx, i = "", 0
    while i < len(pattern):
        c = pattern[i]
        if c == "\\":
            if i + 1 < len(pattern) and pattern[i + 1] in "*\\":
                rx += re.escape(pattern[i + 1]); i += 2; continue
            raise Unspecified("backslash not followed by * or backslash in a StringMatches pattern")
        rx += ".*" if c == "*" else re.escape(c)
        i += 1
    return re.fullmatch(rx, s, re.S) is not None


_CMP = {"Equals": lambda a, b: a == b, "LessThan": lambda a, b: a < b, "GreaterThan": lambda a, b: a > b,
        "LessThanEquals": lambda a, b: a <= b, "GreaterThanEquals": lambda a, b: a >= b}

OPERATORS = [k + r for k in ("String", "Numeric", "Timestamp") for r in _CMP] + ["BooleanEquals", "StringMatches",
            "IsNull", "IsPresent", "IsNumeric", "IsString", "IsBoolean", "IsTimestamp"]
PATH_OPERATORS = [k + r + "Path" for k in ("String", "Numeric", "Timestamp") for r in _CMP] + ["BooleanEqualsPath"]


def eval_rule(rule, data, context):
    """True/False, or raises Unspecified."""
    if "And" in rule:
        return all([eval_rule(r, data, context) for r in rule["And"]])
    if "Or" in rule:
        return any([eval_rule(r, data, context) for r in rule["Or"]])
    if "Not" in rule:
        return not eval_rule(rule["Not"], data, context)
    present = True
    try:
        var = apply_path(data, context, rule["Variable"])
    except NoMatch:
        present, var = False, None
    ops = [k for k in rule if k not in ("Variable", "Next", "Comment")]
    if len(ops) != 1:
        raise Unspecified("rule with %d operators" % len(ops))
    op = ops[0]
    val = rule[op]
    if op == "IsPresent":
        if not isinstance(val, bool):
            raise Unspecified("IsPresent operand")
        return present == val
    if present and op != "IsPresent" and contains_any(var):
        raise Unspecified("Choice on an implementation-defined text (the Cause of an error)")
    if op in ("IsNull", "IsNumeric", "IsString", "IsBoolean", "IsTimestamp"):
        if not isinstance(val, bool):
            raise Unspecified("Is* operand")
        if not present:
            raise Unspecified("Is* on a missing variable")
        if op == "IsTimestamp":
            try:
                parse_ts(var); fact = True
            except ValueError:
                fact = False
        else:
            fact = {"IsNull": var is None, "IsNumeric": is_num(var), "IsString": isinstance(var, str),
                    "IsBoolean": isinstance(var, bool)}[op]
        return fact == val
    if op.endswith("Path"):
        op = op[:-4]
        if not isinstance(val, str):
            raise Unspecified("*Path operand")
        if not present:
            return False
        try:
            val = apply_path(data, context, val)
        except NoMatch:
            return False
    if not present:
        return False
    if op == "StringMatches":
        return isinstance(var, str) and isinstance(val, str) and wildcard_match(val, var)
    for kind in ("String", "Numeric", "Boolean", "Timestamp"):
        if op.startswith(kind):
            rel = _CMP.get(op[len(kind):])
            if rel is None:
                raise Unspecified(op)
            if kind == "String":
                return isinstance(var, str) and isinstance(val, str) and rel(var, val)
            if kind == "Numeric":
                return is_num(var) and is_num(val) and rel(var, val)
            if kind == "Boolean":
                if op != "BooleanEquals":
                    raise Unspecified(op)
                return isinstance(var, bool) and isinstance(val, bool) and var == val
            try:
                return rel(parse_ts(var), parse_ts(val))
            except ValueError:
                return False
    raise Unspecified(op)


# ----------------------------------------------------------------------------- variants
class Variant(object):
    """Resolves the reference's own nondeterminism; `points` records (n_options, chosen)."""

    def __init__(self, prefix=()):
        self.prefix, self.points = list(prefix), []

    def choose(self, n):
        if n <= 1:
            return 0
        k = len(self.points)
        idx = self.prefix[k] if k < len(self.prefix) else 0
        self.points.append((n, idx))
        return idx


def enumerate_variants(run, limit=64):
    """run(variant) -> result.  Yields results for every variant (DFS over the variant's choice points)."""
    prefix, n = [], 0
    while True:
        v = Variant(prefix)
        yield run(v)
        n += 1
        pts = v.points
        i = len(pts) - 1
        while i >= 0 and pts[i][1] + 1 >= pts[i][0]:
            i -= 1
        if i < 0:
            return
        if n >= limit:
            raise Unspecified("more than %d reference variants" % limit)
        prefix = [p[1] for p in pts[:i]] + [pts[i][1] + 1]


# ----------------------------------------------------------------------------- interpreter
class Outcome(object):
    def __init__(self, status, output=None, error=None, trace=None, t=0.0, requests=None, facts=None):
        self.status, self.output, self.error, self.trace, self.t = status, output, error, trace or [], t
        self.requests, self.facts = requests or [], facts or {}

    def key(self):
        return (self.status, show(self.output) if self.status == "SUCCEEDED" else self.error)

    def __repr__(self):
        return "Outcome(%s, %s, t=%s)" % (self.status, show(self.output) if self.status == "SUCCEEDED" else self.error, self.t)


UNRECOVERABLE = ("States.Runtime", "States.ExecutionTimeout")
PARAM_FAILURE_NAMES = ("States.ParameterPathFailure", "States.Runtime")


class Interp(object):
    """task(function, payload, attempt_no_for_that_function_and_payload) ->
          ("ok", value) | ("err", name, cause) | ("silent",)          optionally followed by a latency in seconds
    """

    def __init__(self, asl, task, exec_id="E", start_time=0.0, variant=None, intrinsic=None, exec_name=None, sm_id=None,
                 shared_retry_counter=False):
        self.asl, self.task = asl, task
        self.trace = []
        self.t = start_time
        self.t0 = start_time
        self.requests = []      # dicts t, fn, payload
        self.stateful_calls = []
        self.variant = variant or Variant()
        self.intrinsic = intrinsic
        self.facts = {"caught": 0, "retries": 0, "fanouts": 0, "fanout_failures": 0, "param_failures": 0,
                      "error_member_values": [], "alias_pass": [], "states": 0}
        self.ctx_base = {"Execution": {"Id": exec_id}}
        if exec_name is not None:
            self.ctx_base["Execution"]["Name"] = exec_name
        if sm_id is not None:
            self.ctx_base["StateMachine"] = {"Id": sm_id}
        self.exec_timeout = asl.get("TimeoutSeconds")
        self.shared_retry_counter = shared_retry_counter     # NOT the specification: models one counter per state (classifier delta test)

    def run(self, data):
        self.ctx_base["Execution"]["Input"] = copy.deepcopy(data)
        try:
            out = self.run_machine(self.asl, data, {})
            self.note_error_member(out, "execution-output")
            o = Outcome("SUCCEEDED", out, trace=self.trace, t=self.t)
        except StateError as e:
            o = Outcome("FAILED", error=e.name, trace=self.trace, t=self.t)
        if self.exec_timeout is not None and self.t - self.t0 > self.exec_timeout:
            raise Unspecified("execution time-out interacts with the run (own check: C08)")
        o.requests, o.facts = self.requests, self.facts
        return o

    def note_error_member(self, value, where):
        if isinstance(value, dict) and value.get("Error"):
            self.facts["error_member_values"].append((where, value.get("Error")))

    def context(self, name, extra):
        c = copy.deepcopy(self.ctx_base)
        c["State"] = {"Name": name}
        c.update(extra)
        return c

    def run_machine(self, machine, data, extra, depth=0):
        name = machine["StartAt"]
        steps = 0
        while True:
            steps += 1
            if steps > 200:
                raise Unspecified("loop")
            state = machine["States"][name]
            self.facts["states"] += 1
            self.trace.append(("enter", name, copy.deepcopy(data), depth))
            kind, payload = self.run_state(name, state, data, extra, depth)
            if kind == "end":
                self.trace.append(("exit", name, copy.deepcopy(payload), depth))
                if len(json.dumps(payload, default=repr)) > DATA_LIMIT - 1000:
                    raise Unspecified("near the data limit (own check: C16)")
                return payload
            nxt, data = payload
            self.trace.append(("exit", name, copy.deepcopy(data), depth))
            if len(json.dumps(data, default=repr)) > DATA_LIMIT - 1000:
                raise Unspecified("near the data limit (own check: C16)")
            name = nxt

    # a state returns ("end", output) or ("next", (name, output)); failures raise StateError
    def run_state(self, name, st, data, extra, depth):
        typ = st["Type"]
        ctx = self.context(name, extra)
        if typ == "Fail":
            if "Error" not in st:
                raise Unspecified("Fail without Error")
            raise StateError(st["Error"], st.get("Cause", ""))
        if typ == "Succeed":
            return "end", self.out_path(st, self.in_path(st, data, ctx), ctx)
        if typ == "Choice":
            inp = self.in_path(st, data, ctx)
            for rule in st["Choices"]:
                if eval_rule(rule, inp, ctx):
                    return "next", (rule["Next"], self.out_path(st, inp, ctx))
            if "Default" in st:
                return "next", (st["Default"], self.out_path(st, inp, ctx))
            raise StateError("States.NoChoiceMatched")
        if typ == "Wait":
            inp = self.in_path(st, data, ctx)
            self.wait(st, inp, ctx)
            return self.finish(st, self.out_path(st, inp, ctx))
        if typ == "Pass":
            inp = self.in_path(st, data, ctx)
            eff = self.template(st.get("Parameters"), inp, ctx)
            if "Result" in st:
                result = copy.deepcopy(st["Result"])
            else:
                result = eff
                if st.get("ResultPath", "$") not in ("$", None) and "Parameters" not in st:
                    self.facts["alias_pass"].append(name)
            return self.finish(st, self.result_out(st, data, result, ctx))
        if typ in ("Task", "Parallel", "Map"):
            return self.run_retriable(name, st, data, ctx, extra, depth)
        raise Unspecified(typ)

    def finish(self, st, out):
        if st.get("End"):
            return "end", out
        return "next", (st["Next"], out)

    def in_path(self, st, data, ctx):
        if data is None:
            self.facts["null_docs"] = self.facts.get("null_docs", 0) + 1
        try:
            v = apply_path(data, ctx, st.get("InputPath", "$"))
        except NoMatch:
            raise StateError("States.Runtime")
        if v is None:
            self.facts["null_docs"] = self.facts.get("null_docs", 0) + 1
        return v

    def out_path(self, st, data, ctx):
        if data is None:
            self.facts["null_docs"] = self.facts.get("null_docs", 0) + 1
        try:
            v = apply_path(data, ctx, st.get("OutputPath", "$"))
        except NoMatch:
            raise StateError("States.Runtime")
        if v is None:
            self.facts["null_docs"] = self.facts.get("null_docs", 0) + 1
        return v

    def template(self, tpl, data, ctx):
        try:
            return eval_template(tpl, data, ctx, self.intrinsic, path_failure="States.ParameterPathFailure")
        except StateError as e:
            if e.name == "States.ParameterPathFailure":
                self.facts["param_failures"] += 1
                raise StateError(PARAM_FAILURE_NAMES[self.variant.choose(len(PARAM_FAILURE_NAMES))], e.cause)
            raise

    def result_out(self, st, raw, result, ctx):
        merged = apply_resultpath(raw, result, st.get("ResultPath", "$"))
        return self.out_path(st, merged, ctx)

    def wait(self, st, inp, ctx):
        entered = self.t
        if "Seconds" in st:
            if not is_num(st["Seconds"]) or st["Seconds"] < 0:
                raise Unspecified("Seconds")
            self.t = entered + st["Seconds"]
        elif "SecondsPath" in st:
            try:
                s = apply_path(inp, ctx, st["SecondsPath"])
            except NoMatch:
                raise StateError("States.Runtime")
            if not is_num(s) or s < 0:
                raise Unspecified("non-numeric SecondsPath")
            self.t = entered + s
        else:
            ts = st.get("Timestamp")
            if ts is None:
                try:
                    ts = apply_path(inp, ctx, st["TimestampPath"])
                except NoMatch:
                    raise StateError("States.Runtime")
            try:
                self.t = max(entered, parse_ts(ts))
            except ValueError:
                raise Unspecified("bad timestamp")

    # ------------------------------------------------------------------ retry / catch
    def err_matches(self, error_equals, err, task_raised):
        if error_equals == ["States.ALL"]:
            return err not in UNRECOVERABLE
        if "States.ALL" in error_equals:
            raise Unspecified("States.ALL not alone")
        if "States.TaskFailed" in error_equals and err != "States.TaskFailed":
            if task_raised:
                return True          # States.TaskFailed acts as a wildcard for errors raised by a task
            raise Unspecified("States.TaskFailed against a non-task error")
        return err in error_equals

    def run_retriable(self, name, st, data, ctx, extra, depth):
        counters = {}
        self._entry_seq = getattr(self, "_entry_seq", 0) + 1
        entry = self._entry_seq
        while True:
            try:
                self._current_entry = entry          # (nested states change it; restore before every attempt of this one)
                return self.run_work(name, st, data, ctx, extra, depth)
            except StateError as e:
                handled = False
                task_raised = getattr(e, "task_raised", False)
                if e.name not in UNRECOVERABLE:
                    for i, r in enumerate(st.get("Retry", [])):
                        if self.err_matches(r["ErrorEquals"], e.name, task_raised):
                            ci = 0 if self.shared_retry_counter else i
                            k = counters.get(ci, 0)
                            if k < r.get("MaxAttempts", 3):
                                counters[ci] = k + 1
                                self.facts.setdefault("retriers_used", set()).add(i)
                                rate = r.get("BackoffRate", 2.0)
                                if rate < 1.0:
                                    raise Unspecified("BackoffRate < 1")
                                self.t += r.get("IntervalSeconds", 1) * (rate ** k)
                                self.facts["retries"] += 1
                                if len(self.facts.get("retriers_used", ())) > 1:
                                    self.facts["multi_retrier"] = True
                                handled = True
                            break
                if handled:
                    continue
                if e.name not in UNRECOVERABLE:
                    for c in st.get("Catch", []):
                        if self.err_matches(c["ErrorEquals"], e.name, task_raised):
                            err_out = {"Error": e.name, "Cause": ANY}
                            out = apply_resultpath(data, err_out, c.get("ResultPath", "$"))
                            self.facts["caught"] += 1
                            return "next", (c["Next"], out)
                raise

    def run_work(self, name, st, data, ctx, extra, depth):
        typ = st["Type"]
        inp = self.in_path(st, data, ctx)
        if typ == "Task":
            eff = self.template(st.get("Parameters"), inp, ctx)
            res = st["Resource"]
            long_form = re.match(r"^arn:aws:states:[^:]*:[^:]*:rpcmessage:invoke$", res) is not None
            if long_form:
                # the "long form" of a function call: Parameters name the function and carry the payload; the result is the
                # documented dictionary of metadata around the function's own result
                if not isinstance(eff, dict) or not isinstance(eff.get("FunctionName"), str) or not eff["FunctionName"].startswith("arn:aws:rpcmessage:local::function:"):
                    raise Unspecified("long-form invoke without a function ARN")
                fn = eff["FunctionName"].rsplit(":", 1)[1]
                eff = eff.get("Payload", {})
            elif not res.startswith("arn:aws:rpcmessage:local::function:"):
                raise Unspecified("service integration (own check: C15)")
            else:
                fn = res.rsplit(":", 1)[1]
            entered = self.t
            self.requests.append(dict(t=self.t, fn=fn, payload=copy.deepcopy(eff), state=name))
            if fn in getattr(self.task, "stateful", ()):
                if contains_any(eff):
                    # the behaviour of such a task depends on which payloads it has seen.  A payload that carries an implementation-defined
                    # text (the Cause of a caught error quotes history event ids) is the same payload for the retries of one state entry,
                    # but a different one when the state is entered again (outer retry, loop, another iteration)
                    seen = self.__dict__.setdefault("_any_payload_entries", {})
                    k2 = (fn, json.dumps(eff, sort_keys=True, default=repr))
                    if seen.setdefault(k2, getattr(self, "_current_entry", None)) != getattr(self, "_current_entry", None):
                        raise Unspecified("stateful task called again, from another state entry, with a payload containing implementation-defined text")
                self.stateful_calls.append((fn, json.dumps(eff, sort_keys=True, default=repr)))
            r = self.task(fn, eff)
            latency = 0.0
            if r and isinstance(r[-1], dict) and "latency" in r[-1]:
                latency = r[-1]["latency"]; r = r[:-1]
            to = st.get("TimeoutSeconds")
            if r[0] == "silent" or (to is not None and latency > to):
                if to is None:
                    raise Unspecified("silent task without TimeoutSeconds")
                self.t = entered + to
                e = StateError("States.Timeout"); e.task_raised = False
                raise e
            if to is not None and latency == to:
                raise Unspecified("reply exactly at the deadline")
            self.t = entered + latency
            if r[0] == "err":
                if r[1].startswith("States."):
                    raise Unspecified("worker raising a reserved error name")
                e = StateError(r[1], r[2] if len(r) > 2 else ""); e.task_raised = True
                raise e
            result = copy.deepcopy(r[1])
            if long_form:
                result = {"ExecutedVersion": "$LATEST", "Payload": result, "SdkResponseMetadata": {"RequestId": ANY}, "StatusCode": 200}
            self.note_error_member(result, "task-result:" + name)
        elif typ == "Parallel":
            eff = self.template(st.get("Parameters"), inp, ctx)
            result = self.fan_out([(b, copy.deepcopy(eff), extra) for b in st["Branches"]], depth, None)
        else:
            try:
                items = apply_path(inp, ctx, st.get("ItemsPath", "$"))
            except NoMatch:
                raise StateError("States.Runtime")
            if not isinstance(items, list):
                raise Unspecified("ItemsPath not an array")
            proc = st.get("ItemProcessor") or st.get("Iterator")
            sel = st.get("ItemSelector", st.get("Parameters"))
            jobs = []
            for i, item in enumerate(items):
                if sel is not None:
                    c2 = copy.deepcopy(ctx); c2["Map"] = {"Item": {"Index": i, "Value": copy.deepcopy(item)}}
                    eff = self.template(sel, inp, c2)
                else:
                    eff = copy.deepcopy(item)
                jobs.append((proc, eff, extra))
            mc = st.get("MaxConcurrency", 0)
            result = self.fan_out(jobs, depth, mc if mc else None)
        result = self.template(st.get("ResultSelector"), result, ctx)
        return self.finish(st, self.result_out(st, data, result, ctx))

    def fan_out(self, jobs, depth, batch):
        """Outputs by index.  Time: batches of `batch` run one after the other, a batch takes as long as
        its slowest branch.  Failure: any failing branch may be the one that fails the state (variant);
        the state fails at that branch's failure time (siblings are cancelled)."""
        self.facts["fanouts"] += 1
        t0, outs = self.t, []
        n = len(jobs)
        size = batch or max(n, 1)
        bstart = t0
        for b0 in range(0, n, size):
            errs, bend = [], bstart
            seen_by_job = []
            for machine, eff, extra in jobs[b0:b0 + size]:
                self.t = bstart
                mark = len(self.stateful_calls)
                try:
                    out = self.run_machine(machine, eff, extra, depth + 1)
                    self.note_error_member(out, "branch-output")
                    outs.append(out)
                except StateError as e:
                    errs.append((e, self.t))
                    outs.append(None)
                bend = max(bend, self.t)
                mine = set(self.stateful_calls[mark:])
                if any(mine & other for other in seen_by_job):
                    # the outcome of a history-dependent task called with the same payload from concurrent branches depends on
                    # which call arrives first: the sequential reference cannot say
                    raise Unspecified("history-dependent task called with the same payload from concurrent branches")
                seen_by_job.append(mine)
            if errs:
                self.facts["fanout_failures"] += 1
                if len(errs) > 1:
                    self.facts["multi_failure"] = True
                e, te = errs[self.variant.choose(len(errs))]
                self.t = te
                e2 = StateError(e.name, e.cause); e2.task_raised = getattr(e, "task_raised", False)
                raise e2
            bstart = bend
        self.t = bstart
        return outs


def outcomes(asl, task_factory, data, limit=64, **kw):
    """All admissible outcomes (list of Outcome) of running `asl` on `data`.
    task_factory() must return a fresh task oracle (it may keep per-run attempt counters)."""
    def run(variant):
        return Interp(asl, task_factory(), variant=variant, **kw).run(copy.deepcopy(data))
    return list(enumerate_variants(run, limit))
