"""
C06  A failing branch fails its Parallel/Map once; siblings cannot disturb the result.

For every fan-out scenario x failure assignment x handler combination x schedule, after the step in which the fan-out's failure
is handled the monitors look for: an RPC request issued for a sibling, history appended after the terminal event, a second terminal
notification or a change of the terminal record, a retried attempt / continuation ending outside the reference's admissible set,
unacknowledged messages or engine state at drain, an execution that never terminates, and anything happening long after the end.
"""
import json, copy, random, collections
from lsfverif.ref import asl as R
from lsfverif.gen import families as F, machines as G
from lsfverif.mon import scenario as S, classify as C
from lsfverif.mon.monitors import TERMINAL
from lsfverif.checks import _sched
from lsfverif.sim.world import EPOCH0

ID = "C06"
ENGINE = "simworld"
LEVEL = "fault_enumeration"
RULE = ("case = (fan-out scenario, failure assignment, handlers, schedule): Parallel/Map x {no handler, Catch, Retry, Retry+Catch} x failures assigned to "
        "{none, one, several, all} branches/iterations (task error or Fail state) x sibling bodies {task, task chain, wait, slow task, nested fan-out} x nesting<=2; "
        "schedules: canonical, seeded random, DFS for <=3 branches; virtual time is run past the TTL back-stop so that delayed effects are seen. non-trivial = >=1 "
        "sibling live (a queued/unacknowledged event, outstanding request or armed timer) when the failure was handled; distinct by hash of (scenario, action sequence)")
ASSUMPTIONS = ["the reference's admissible set: the fan-out fails with the error of SOME failing branch, then its own Retry/Catch applies",
               "'RPC request after the failure' is judged where it is unambiguous: after the terminal notification of an unhandled failure, and for functions used only by sibling bodies after a caught failure",
               "a history-dependent task called with the same payload from concurrent branches is unspecified"]
FLOORS = {"evaluations": 800, "schedules": 600, "nontrivial": 300, "handled:none": 60, "handled:catch": 60, "handled:retry": 100, "failures:one": 100, "failures:several": 50,
          "failures:all": 30, "runs_with_live_siblings_at_failure": 300, "runs_with_no_live_sibling_at_failure": 60, "outcomes_compared": 600, "dfs_runs": 100}
SHARDS = {"quick": 16, "thorough": 16}
TECHNIQUE = "online monitors (notifications, records, history, acks/drain, worker request log) + admissible-outcome oracle over enumerated failure assignments and explored schedules"
LEVEL_TEXT = ("Failure assignments and handler combinations are enumerated, schedules explored (random + DFS); every run is watched from the failure onwards for any effect of a "
              "sibling and run past the back-stop period. Held = no unattributed effect; the structural defects of the unchanged tree are listed findings decided by trace predicates, "
              "and in the variant where no sibling is live at the failure no finding is accepted.")
LEVEL_NOTE = "the classifier for handled failures is necessarily broad (one root cause, many symptoms): see DESIGN.md appendix F; trusts the reference's admissible-outcome sets"
DESIGN_REF = "DESIGN.md section 6, C06"

EXEC = "arn:aws:states:local:0123456789:execution:m:e0"
FUNCS = {"echo": ["echo"], "wrap": ["wrap"], "boom": ["fail", "Boom"], "bang": ["fail", "Bang"], "slow3": ["slow", 3], "sib": ["wrap"], "sibslow": ["slow", 2],
         "flaky": ["flaky", ["Flaky"]], "failodd": ["fail_if", "i", 1], "failall": ["fail", "Boom"],
         "slowboom": ["seq", [["err", "Boom", "late", {"latency": 2}]]], "inner": ["fail", "Inner.Err"], "zero": ["const", 0], "empty": ["const", {}], "nil": ["const", []], "mute": ["silent"]}


def sibling_body(rng, names, kind=None):
    kind = kind or rng.choice(["task", "chain", "wait", "slow", "nested", "instant", "caught", "caught", "falsy", "falsy"])
    if kind == "falsy":
        # a sibling that has FINISHED, with a result that is falsy in Python ({}, [], 0, "", false): it is done, not outstanding
        v = copy.deepcopy(rng.choice(F.FALSY))
        return F.chain([(names(), F.P(Result=v))]) if rng.random() < 0.6 else F.chain([(names(), F.T(rng.choice(["zero", "empty", "nil"])))])
    if kind == "caught":
        # a sibling whose own Task error was caught INSIDE the branch and which is now busy in its handler (a slow Task) when another branch fails
        first, handler = names(), names()
        return {"StartAt": first, "States": {first: dict(F.T("inner"), Catch=[{"ErrorEquals": ["Inner.Err"], "ResultPath": "$.caught", "Next": handler}], End=True),
                                             handler: dict(F.T("sibslow"), End=True)}}
    if kind == "retrying":
        # a sibling whose Task keeps failing with its own error under its own Retrier: when the other branch fails it sits in its retry interval (no request
        # outstanding, nothing to cancel), is invoked again afterwards and answers with its error again
        return F.chain([(names(), dict(F.T("bang"), Retry=[{"ErrorEquals": ["Bang"], "IntervalSeconds": rng.randint(2, 3), "MaxAttempts": rng.randint(1, 2), "BackoffRate": 1.0}]))])
    if kind == "timed":
        # a sibling waiting for a worker that never answers, under its own TimeoutSeconds: its timer fires after the other branch has failed
        return F.chain([(names(), dict(F.T("mute"), TimeoutSeconds=rng.randint(2, 4)))])
    if kind == "task":
        return F.chain([(names(), F.task(rng, "sib"))])
    if kind == "chain":
        return F.chain([(names(), F.task(rng, "sib")), (names(), F.P()), (names(), F.task(rng, "sib"))])
    if kind == "wait":
        return F.chain([(names(), F.W(rng.randint(1, 4))), (names(), F.task(rng, "sib"))])
    if kind == "slow":
        return F.chain([(names(), F.task(rng, "sibslow")), (names(), F.task(rng, "sib"))])
    if kind == "instant":
        return F.chain([(names(), F.P())])
    inner = {"Type": "Parallel", "Branches": [F.chain([(names(), F.T("sib"))]), F.chain([(names(), F.W(2)), (names(), F.T("sib"))])]}
    return F.chain([(names(), inner), (names(), F.P())])


def failing_body(rng, names, how=None, delay=None):
    how = how or rng.choice(["task", "state", "late-task"])
    pre = []
    if delay:
        pre.append((names(), F.W(delay)))
    if how == "task":
        return F.chain(pre + [(names(), F.T(rng.choice(["boom", "bang"])))])
    if how == "state":
        return F.chain(pre + [(names(), F.P()), (names(), {"Type": "Fail", "Error": "Branch.Failed", "Cause": "c"})])
    return F.chain(pre + [(names(), F.T("sib")), (names(), F.T("boom"))])


def make(rng, kind, n, failing, handlers, sib_kind=None, fail_delay=None, siblings_done_first=False, late_failure=False, recover=None):
    """failing: set of branch/item indices that fail.  siblings_done_first: siblings are instantaneous and the failure comes late."""
    names = F.Names()
    if kind == "Parallel":
        branches = []
        for i in range(n):
            if i in failing and late_failure and i == max(failing) and len(failing) >= 2:
                branches.append(F.chain([(names(), F.T("slowboom"))]))      # its error reply arrives 2 s after the first failure
            elif i in failing:
                branches.append(failing_body(rng, names, delay=(3 if siblings_done_first else fail_delay)))
            else:
                branches.append(sibling_body(rng, names, rng.choice(["instant", "falsy"]) if siblings_done_first else sib_kind))
        st = {"Type": "Parallel", "Branches": branches}
        data = {"x": 1}
    else:
        a, g, b, g2 = names(), names(), names(), names()
        good = {g: F.T("sib", Next=g2), g2: (F.T("sibslow", End=True) if not siblings_done_first else F.P(End=True))} if not siblings_done_first else {g: F.P(End=True)}
        proc = {"StartAt": a, "States": dict({a: {"Type": "Choice", "Choices": [{"Variable": "$.bad", "BooleanEquals": True, "Next": b}], "Default": g},
                                              b: (F.T("boom", End=True) if not siblings_done_first else F.W(3, Next="Bz"))}, **good)}
        if siblings_done_first:
            proc["States"]["Bz"] = F.T("boom", End=True)
        st = {"Type": "Map", "ItemsPath": "$.items", "ItemProcessor": proc}
        if rng.random() < 0.4:
            st["MaxConcurrency"] = rng.randint(1, n)
        data = {"x": 1, "items": [{"id": "it%d" % i, "i": i, "bad": i in failing} for i in range(n)]}
    st["ResultPath"] = "$.out"
    h = {}
    if handlers in ("retry", "retry+catch"):
        h["Retry"] = [{"ErrorEquals": ["Boom", "Branch.Failed"], "IntervalSeconds": rng.randint(1, 2), "MaxAttempts": rng.randint(1, 2), "BackoffRate": 1.0}]
    if handlers in ("catch", "retry+catch"):
        h["Catch"] = [{"ErrorEquals": ["States.ALL"], "Next": "Recover", "ResultPath": "$.err"}]
    st.update(h)
    recover = recover or (rng.choice(["pass", "task", "slowtask"]) if not late_failure else "slowtask")
    states = [("Pre", F.P()), ("Fan", st), ("After", F.T("echo") if rng.random() < 0.5 else F.P()), ("Done", {"Type": "Succeed"})]
    asl = F.chain(states)
    asl["States"]["Recover"] = F.P(ResultPath="$.recovered", Result=True, Next="Done") if recover == "pass" else \
        dict(F.T("echo" if recover == "task" else "slow3"), Next="Done")
    scn = {"machines": {"m": {"asl": asl}}, "funcs": dict(FUNCS), "starts": [{"machine": "m", "name": "e0", "input": data}]}
    meta = dict(family="fanout-failure", kind=kind, n=n, failing=sorted(failing), handlers=handlers, recover=recover, siblings_done_first=siblings_done_first,
                late_failure=late_failure)
    return scn, meta


def reference(scn):
    return R.outcomes(scn["machines"]["m"]["asl"], lambda: G.task_oracle(scn["funcs"]), scn["starts"][0]["input"], exec_id=EXEC, exec_name="e0")


class FailureWatch(object):
    """Step hook: notes, at the step in which a fan-out failure enters the history, how many carriers the execution has."""

    def __init__(self, run):
        self.run, self.seen, self.events = run, 0, []
        run.world.step_hooks.append(self.on_step)

    def on_step(self, world, act):
        # a retried fan-out leaves no *StateFailed event: it shows as the engine re-publishing the fan-out's own state event
        # with a RetryCount
        step = world.broker.step
        for r in reversed(world.broker.oplog):
            if r["step"] < step:
                break
            if r["step"] == step and r["op"] == "basic_publish" and (r["conn"] or "").startswith("engine:") and r.get("exchange") == "" \
                    and (r.get("routing_key") or "").startswith("asl_workflow_events"):
                try:
                    st = json.loads(r["body"])["context"]["State"]
                except Exception:
                    continue
                if st.get("Name") == "Fan" and st.get("RetryCount") and "Branch" not in st:
                    carriers = self.run.acks.carriers().get(EXEC, 0) if self.run.acks else 0
                    self.events.append(dict(step=step, carriers=carriers, terminal=False, t=world.clock.now - EPOCH0, retry=st.get("RetryCount")))
        for e in world.engines.values():
            h = e.se.execution_history.get(EXEC)
            if not h:
                return
            n = sum(1 for x in h if x.get("type") in ("ParallelStateFailed", "MapStateFailed"))
            if n > self.seen:
                self.seen = n
                carriers = self.run.acks.carriers().get(EXEC, 0) if self.run.acks else 0
                term = bool(world.terminal_notifications(EXEC))
                self.events.append(dict(step=world.broker.step, carriers=carriers, terminal=term, t=world.clock.now - EPOCH0))
            return


def mechanisms(run, meta):
    """-> (mech(step, rule, t) -> listed finding id | None, handled, live): the trace predicates of this family's listed findings (also used by C02 for
    the same scenarios)."""
    w = run.world
    watch = run.watch
    handled = meta["handlers"] != "none" and bool(meta["failing"])
    # siblings live when the (first) failure was handled?
    live = False
    for ev in watch.events:
        live = live or (ev["carriers"] >= (1 if ev["terminal"] else 2))
    run.m1 = False

    def mech(v_step=None, rule="", v_t=None):
        """Trace predicates (DESIGN.md appendix B)."""
        if v_step is not None and C.is_delegate_step(run, v_step):
            run.m1 = True
            return "deferred-delegate-after-ack"
        if run.m1 and rule.startswith(("H-events-after-terminal", "rpc-request-after")):
            return "deferred-delegate-after-ack"       # replies to what a deferred delegate sent
        if handled and live:
            # the listed finding's own symptoms: siblings keep running (late history, requests, leftovers), the execution may
            # hang, and the TTL back-stop may then end it a second time.  A second terminal status that is NOT the back-stop's
            # (e.g. the continuation running twice) is not one of them.
            if rule.startswith(("N-second-terminal", "R-terminal-record-changed", "H-multiple-terminal-events", "H-terminal-event-disagrees", "N-running-after")) \
                    and not (v_t is not None and v_t >= EPOCH0 + w.execution_ttl) and meta["handlers"] == "catch" \
                    and not any(ev["terminal"] for ev in watch.events):
                # Catch only: on the unchanged tree the continuation runs a second time only when a sibling fails AFTER the
                # execution has already ended (its join state was deleted and re-created); while it is still RUNNING, late
                # failures of terminated siblings are neutralised
                return None
            return "fanout-failure-handled-siblings-live"
        if not handled and live and len(meta["failing"]) >= 2 and rule.startswith(("N-second-terminal", "R-terminal-record-changed", "H-multiple", "H-events-after", "H-terminal-event")):
            return "several-unhandled-failures-end-the-execution-twice"
        return None
    return mech, handled, live


def judge(ctx, run, meta, sched, outs):
    w = run.world
    watch = run.watch
    mech, handled, live = mechanisms(run, meta)
    if meta["failing"]:
        ctx.count("runs_with_live_siblings_at_failure" if live else "runs_with_no_live_sibling_at_failure")
        if live:
            ctx.nontrivial([_sched.scn_key(run.scn), _sched.schedule_hash(run)])
    wit = lambda extra: S.witness_of(run, dict(extra, meta=meta, schedule_name=sched, failure_events=watch.events))
    for v in run.violations:
        r = v["rule"]
        if r.startswith(("N-second-terminal", "N-running-after-terminal", "R-terminal-record-changed", "R-shape", "H-events-after-terminal", "H-multiple-terminal-events",
                         "H-terminal-event-disagrees", "A1-", "A4-")):
            ctx.violation(r, wit(dict(violation=v)), mech(v["step"], r, v.get("t")))
    if run.error:
        ctx.violation("exception-escaped-the-engine", wit({}), mech(None, "exception") if (handled and live) else None)
    for arn in getattr(run, "never_terminated", []) or []:
        ctx.violation("execution-never-terminates", wit(dict(arn=arn)), mech(None, "never"))
    if getattr(run, "late_notifications", None):
        ctx.violation("notification-long-after-the-end", wit(dict(late=[n["body"]["detail"]["status"] for n in run.late_notifications])), mech(None, "late"))
    if getattr(run, "late_ops", None):
        ctx.violation("engine-activity-long-after-the-end", wit(dict(ops=[(r["op"], r.get("routing_key")) for r in run.late_ops][:6])), mech(None, "late"))
    # RPC requests after the failure
    terms = w.terminal_notifications(EXEC)
    if terms and not handled:
        n_term = terms[0]["n"]
        late_req = [r for r in w.broker.oplog[n_term:] if r["op"] == "basic_publish" and (r["conn"] or "").startswith("engine:") and r.get("exchange") == ""
                    and r.get("routing_key") in run.scn["funcs"]]
        for r in late_req[:1]:
            ctx.violation("rpc-request-after-the-execution-failed", wit(dict(function=r["routing_key"], op=r["n"], step=r["step"])), mech(r["step"], "rpc-request-after"))
    if handled and meta["handlers"] == "catch" and watch.events:
        s0 = watch.events[0]["step"]
        sib_fns = {"sib", "sibslow"}
        late_req = [r for r in w.broker.oplog if r["step"] > s0 and r["op"] == "basic_publish" and (r["conn"] or "").startswith("engine:") and r.get("exchange") == ""
                    and r.get("routing_key") in sib_fns]
        for r in late_req[:1]:
            ctx.violation("rpc-request-for-a-sibling-after-the-failure-was-caught", wit(dict(function=r["routing_key"], step=r["step"])), mech(r["step"], "rpc-request-after"))
    # admissible outcome (first terminal)
    if outs is not None:
        st, out, err, t = run.outcomes.get(EXEC, ("NONE", None, None, None))
        ctx.count("outcomes_compared")
        ok = any(o.status == st and (R.matches(o.output, out) if st == "SUCCEEDED" else o.error == err) for o in outs)
        if not ok:
            stuck = st == "NONE" or (err == "States.Timeout" and t is not None and t >= EPOCH0 + w.execution_ttl)
            ctx.violation("outcome-outside-the-admissible-set", wit(dict(expected=[repr(o) for o in outs[:4]], engine=[st, out, err])),
                          "fanout-failure-handled-siblings-live" if (handled and live and stuck) else
                          "inband-error-member" if any(o.facts.get("error_member_values") for o in outs) else None)
    if ctx.counters["evaluations"] % 157 == 1:
        ctx.sample(dict(meta=meta, schedule=sched, notifications=[(round(n["t"] - EPOCH0, 2), n["body"]["detail"]["status"], n["body"]["detail"].get("error")) for n in w.notifications],
                        failure_events=watch.events))


def explore(ctx, scn, meta, n_random, key, dfs=0):
    try:
        outs = reference(scn)
    except R.Unspecified:
        outs = None
        ctx.count("reference_unspecified")
    ctx.count("handled:" + meta["handlers"].replace("retry+catch", "retry"))
    nf = len(meta["failing"])
    ctx.count("failures:" + ("none" if nf == 0 else "one" if nf == 1 else "all" if nf == meta["n"] else "several"))
    hook = lambda run: setattr(run, "watch", FailureWatch(run))
    j = lambda c, run, m, s: judge(c, run, m, s, outs)
    if dfs:
        def one(pol):
            run = S.execute(scn, policy=lambda w: pol, seed=ctx.seed, hooks=[hook])
            try:
                _sched.observe(ctx, run); ctx.distinct("schedules", [_sched.scn_key(scn), _sched.schedule_hash(run)]); ctx.count("dfs_runs")
                j(ctx, run, meta, "dfs")
            finally:
                S.close(run)
        for _ in __import__("lsfverif.sim.world", fromlist=["dfs_schedules"]).dfs_schedules(one, max_runs=dfs):
            pass
        return
    for s in range(n_random + 1):
        r = random.Random("%s-%d" % (key, s))
        pol = None if s == 0 else (lambda w, r=r: __import__("lsfverif.sim.world", fromlist=["make_random"]).make_random(r, prompt_timer_weight=r.choice([1.0, 1.0, 4.0, 0.25])))
        run = S.execute(scn, policy=pol, seed=ctx.seed, hooks=[hook])
        try:
            _sched.observe(ctx, run)
            ctx.distinct("schedules", [_sched.scn_key(scn), _sched.schedule_hash(run)])
            j(ctx, run, meta, "canonical" if s == 0 else "random%d" % s)
        finally:
            S.close(run)


def failure_sets(n):
    yield set()
    for i in range(n):
        yield {i}
    if n >= 3:
        yield {0, n - 1}
        yield set(range(1, n))
    yield set(range(n))


def run(ctx):
    i = 0
    n_random = ctx.pick(3, 14)
    for kind in ("Parallel", "Map"):
        for n in (2, 3, 4) if ctx.quick else (2, 3, 4, 5):
            for failing in failure_sets(n):
                for handlers in ("none", "catch", "retry", "retry+catch"):
                    for variant in range(ctx.pick(2, 5)):
                        i += 1
                        if not ctx.mine(i):
                            continue
                        rng = ctx.rng("case", kind, n, sorted(failing), handlers, variant)
                        done_first = bool(failing) and variant == 1 and len(failing) == 1
                        late = kind == "Parallel" and len(failing) >= 2 and variant == 1
                        scn, meta = make(rng, kind, n, failing, handlers, siblings_done_first=done_first, fail_delay=rng.choice([None, None, 1, 2]), late_failure=late)
                        if late:
                            ctx.count("late_failing_sibling_scenarios")
                        explore(ctx, scn, meta, n_random, "c06-%d" % i)
    # siblings under their own TimeoutSeconds whose worker never answers: the timer fires after the failure (while the Catcher's path is still
    # running, or after the execution has ended)
    for n in (2, 3):
        for handlers in ("none", "catch", "retry", "retry+catch"):
            for recover in ("slowtask", "pass"):
                for variant in range(ctx.pick(1, 3)):
                    i += 1
                    if not ctx.mine(i):
                        continue
                    rng = ctx.rng("timed", n, handlers, recover, variant)
                    scn, meta = make(rng, "Parallel", n, {0}, handlers, sib_kind="timed", fail_delay=rng.choice([None, 1]), recover=recover)
                    ctx.count("timed_sibling_scenarios")
                    explore(ctx, scn, dict(meta, family="fanout-failure-timed-sibling"), n_random, "c06t-%d" % i)
    # siblings in their own retry interval when the failure comes (1 s later), with every handler combination
    for n in (2, 3):
        for handlers in ("none", "catch", "retry", "retry+catch"):
            for variant in range(ctx.pick(1, 3)):
                i += 1
                if not ctx.mine(i):
                    continue
                rng = ctx.rng("retrying", n, handlers, variant)
                scn, meta = make(rng, "Parallel", n, {0}, handlers, sib_kind="retrying", fail_delay=1, recover="slowtask")
                ctx.count("retrying_sibling_scenarios")
                explore(ctx, scn, dict(meta, family="fanout-failure-retrying-sibling"), n_random, "c06r-%d" % i)
    # exhaustive schedules for small fan-outs
    for j, (kind, n, failing, handlers) in enumerate([("Parallel", 2, {0}, "none"), ("Parallel", 2, {0}, "catch"), ("Parallel", 3, {1}, "none"), ("Map", 2, {0}, "none"),
                                                      ("Map", 2, {1}, "retry"), ("Parallel", 2, {0, 1}, "none"), ("Map", 3, {0, 2}, "catch")]):
        i += 1
        if not ctx.mine(i):
            continue
        rng = ctx.rng("dfs", j)
        scn, meta = make(rng, kind, n, failing, handlers, sib_kind="task")
        explore(ctx, scn, dict(meta, family="fanout-failure-dfs"), 0, None, dfs=ctx.pick(150, 5000))


def witnesses(ctx):
    rng = random.Random(1)
    found = {}
    # M2: caught failure with a live slow sibling
    scn, meta = make(random.Random(5), "Parallel", 2, {0}, "catch", sib_kind="slow")
    outs = reference(scn)
    sub = type(ctx)(ctx.check_id, ctx.tier, ctx.seed)
    hook = lambda run: setattr(run, "watch", FailureWatch(run))
    for s in range(6):
        r = random.Random(s)
        run = S.execute(scn, policy=None if s == 0 else (lambda w, r=r: __import__("lsfverif.sim.world", fromlist=["make_random"]).make_random(r)), seed=ctx.seed, hooks=[hook])
        try:
            judge(sub, run, meta, "witness", outs)
        finally:
            S.close(run)
    for fid in ("fanout-failure-handled-siblings-live", "deferred-delegate-after-ack"):
        hit = [v for v in sub.violations if v["mechanism"] == fid]
        found[fid] = hit
    scn2, meta2 = make(random.Random(7), "Parallel", 2, {0}, "none", sib_kind="chain")
    outs2 = reference(scn2)
    for s in range(10):
        r = random.Random(100 + s)
        run = S.execute(scn2, policy=(lambda w, r=r: __import__("lsfverif.sim.world", fromlist=["make_random"]).make_random(r)), seed=ctx.seed, hooks=[hook])
        try:
            judge(sub, run, meta2, "witness", outs2)
        finally:
            S.close(run)
    for fid in ("fanout-failure-handled-siblings-live", "deferred-delegate-after-ack"):
        hit = [v for v in sub.violations if v["mechanism"] == fid]
        ctx.witness(fid, bool(hit), dict(kinds=sorted({v["kind"] for v in hit})))
    for v in sub.violations:
        if v["mechanism"] is None:
            ctx.violation(v["kind"], v["witness"], None)


def replay(ctx, doc):
    w = doc["witness"]
    scn = w["scenario"]
    try:
        outs = reference(scn)
    except R.Unspecified:
        outs = None
    run = S.execute(scn, labels=w.get("schedule"), seed=w.get("seed", 0), hooks=[lambda run: setattr(run, "watch", FailureWatch(run))])
    print("notifications:", [(n["t"] - EPOCH0, n["body"]["detail"]["status"], n["body"]["detail"].get("error")) for n in run.world.notifications])
    print("failure events:", run.watch.events)
    for a, h in run.histories.items():
        print([e["type"] for e in h])
    judge(ctx, run, w["meta"], "replay", outs)
    S.close(run)
