#!/usr/bin/env python3
"""Regenerate the generated tables of DESIGN.md (between <!-- BEGIN:x --> / <!-- END:x --> markers) from MANIFEST.json, evidence/, known_findings.json, seeded/."""
import json, glob, os, re
ROOT = os.path.dirname(os.path.abspath(__file__))
kf = json.load(open(os.path.join(ROOT, "known_findings.json")))
man = json.load(open(os.path.join(ROOT, "MANIFEST.json")))


def t_checks():
    out = ["| id | level | deciding technique | last quick run: evaluations / distinct non-trivial / wall |", "|---|---|---|---|"]
    for c in man["checks"]:
        pid = c["property_id"]
        try:
            ev = json.load(open(os.path.join(ROOT, "evidence", pid + ".json")))
            cov = ev["coverage"]
            last = "%s / %s / %.0f s (%s)" % (cov.get("evaluations"), cov.get("distinct_nontrivial"), ev.get("wall_s", 0), ev.get("tier"))
        except Exception:
            last = "-"
        out.append("| %s | %s | %s | %s |" % (pid, c["level_claimed"]["category"], c["technique"], last))
    return "\n".join(out)


def t_fixed():
    out = ["| commit | properties | what failed before the repair |", "|---|---|---|"]
    for f in kf["fixed"]:
        out.append("| %s | %s | %s |" % (f["commit"], ", ".join(f["properties"]), f["what"].replace("|", "\\|")))
    return "\n".join(out)


def t_known():
    out = ["| id | properties | what fails | where |", "|---|---|---|---|"]
    for f in kf["findings"]:
        out.append("| `%s` | %s | %s | %s |" % (f["id"], ", ".join(f["properties"]), f["what"].replace("|", "\\|"), f.get("where", "").replace("|", "\\|")))
    return "\n".join(out)


def t_matrix():
    mp = os.path.join(ROOT, "seeded", "matrix.json")
    matrix = json.load(open(mp)) if os.path.exists(mp) else {}
    out = ["| seeded change | what it does (from its meta.json) | caught by (quick tier) |", "|---|---|---|"]
    for d in sorted(glob.glob(os.path.join(ROOT, "seeded", "C*", "change*"))):
        name = "/".join(d.split("/")[-2:])
        meta = json.load(open(os.path.join(d, "meta.json")))
        summ = re.sub(r"\s+", " ", meta.get("summary", ""))[:230].replace("|", "\\|")
        row = matrix.get(name, {})
        caught = sorted(c for c, r in row.items() if r.get("verdict") == "VIOLATION")
        own = name.split("/")[0]
        txt = ", ".join(("**%s**" % c) if c == own else c for c in caught) if caught else ("(not run)" if not row else "NOT CAUGHT")
        out.append("| %s | %s | %s |" % (name, summ, txt))
    return "\n".join(out)


def main():
    p = os.path.join(ROOT, "DESIGN.md")
    s = open(p).read()
    for key, fn in (("checks", t_checks), ("fixed", t_fixed), ("known", t_known), ("matrix", t_matrix)):
        a, b = "<!-- BEGIN:%s -->" % key, "<!-- END:%s -->" % key
        if a in s and b in s:
            s = s[:s.index(a) + len(a)] + "\n" + fn() + "\n" + s[s.index(b):]
    open(p, "w").write(s)
    print("fixed=%d known=%d" % (len(kf["fixed"]), len(kf["findings"])))


if __name__ == "__main__":
    main()
