"""
C12  InputPath/OutputPath/ResultPath obey the filter laws and never corrupt data.

Oracles: (1) icontract-style runtime contracts on the real apply_path / apply_jsonpath / apply_resultpath
(argument not mutated by a read; ResultPath output is a finite JSON tree), (2) a 60-line reference evaluator for
definite reference paths (ref/asl.py) run beside the real functions, (3) the same laws through one-state executions
of the real StateEngine.
"""
import copy, json, itertools
from lsfverif.ref import asl as R
from lsfverif.mon import contracts
from lsfverif.sim import mini

ID = "C12"
ENGINE = "mini"
LEVEL = "exploration"
RULE = ("case = (document, reference path, operation read|write, result aliasing none|input|subtree); quick: every document of depth<=1 over "
        "3 keys/6 leaves x every path of length<=2 in dot, bracket and index notation (+ sampled depth-2 documents and length-3 paths); thorough: "
        "random documents of depth<=5 with keys containing space : . - ' and numeric-looking keys. non-trivial = path length>=2, or the result "
        "aliases (part of) the input, or the path does not resolve; distinct by canonical JSON of the case")
ASSUMPTIONS = ["definite reference paths only ($, $.k, $['k'], $[i], nested, $$ for the context); JSONPath wildcards/filters/slices are not judged",
               "ResultPath on a null raw input is unspecified (skipped)", "contracts are attached by rebinding the functions in state_engine_paths and state_engine"]
FLOORS = {"catcher_resultpath_cases": 200, "evaluations": 20000, "reads_compared": 10000, "writes_compared": 10000, "state_level_compared": 300, "nontrivial": 5000,
          "contract_evaluations": 20000, "alias_writes": 500, "unresolvable_reads": 1000}
SHARDS = {"quick": 8, "thorough": 16}
TECHNIQUE = "runtime contracts (icontract) + reference-evaluator monitor on the real path functions and on one-state executions"
LEVEL_TEXT = ("The filter laws are checked as postconditions on every call of the real functions over an exhaustive small document/path space "
              "(quick) and large random spaces with hostile keys (thorough), and again through real single-state executions; held = no law broken "
              "on any case run.")
LEVEL_NOTE = "trusts the reference evaluator for definite paths and deep-copy based snapshots; paths outside the definite grammar are not judged"
DESIGN_REF = "DESIGN.md section 6, C12"

KEYS = ["a", "b", "c"]
LEAVES = [None, 0, False, "", "s", 1.5]
HOSTILE_KEYS = ["a", "b", "my key", "x-y", "a:b", "x.y", "it's", "0", "Error", "_u", "A1"]
CTX = {"Execution": {"Id": "arn:aws:states:local:0123456789:execution:m:e", "Input": {"in": 1}, "Name": "e"},
       "State": {"Name": "S", "EnteredTime": "2023-11-14T22:13:20+00:00"}, "StateMachine": {"Id": "sm"}}


def docs_depth1():
    out = list(LEAVES)
    for n in range(0, 4):
        for ks in itertools.combinations(KEYS, n):
            for vs in itertools.product(LEAVES, repeat=n):
                out.append(dict(zip(ks, vs)))
    for n in range(0, 3):
        for vs in itertools.product(LEAVES, repeat=n):
            out.append(list(vs))
    return out


def rand_doc(rng, depth, keys, leaves=LEAVES):
    r = rng.random()
    if depth <= 0 or r < 0.25:
        return copy.deepcopy(rng.choice(leaves))
    if r < 0.7:
        return {k: rand_doc(rng, depth - 1, keys, leaves) for k in rng.sample(keys, rng.randint(0, min(3, len(keys))))}
    return [rand_doc(rng, depth - 1, keys, leaves) for _ in range(rng.randint(0, 3))]


def token_spellings(t):
    if isinstance(t, int):
        return ["[%d]" % t]
    out = ["['%s']" % t.replace("\\", "\\\\").replace("'", "\\'")]
    if t.isidentifier():
        out.append("." + t)
    return out


def spell(tokens, rng=None, which=0):
    s = "$"
    for i, t in enumerate(tokens):
        sp = token_spellings(t)
        s += sp[rng.randrange(len(sp))] if rng else sp[min(which, len(sp) - 1)]
    return s


def all_paths(max_len, keys=KEYS, idx=(0, 1, 2)):
    toks = list(keys) + list(idx)
    for n in range(0, max_len + 1):
        for ts in itertools.product(toks, repeat=n):
            spellings = [token_spellings(t) for t in ts]
            for combo in itertools.product(*spellings):
                yield list(ts), "$" + "".join(combo)


def existing_token_paths(doc, depth=4, prefix=()):
    yield list(prefix)
    if depth > 0:
        if isinstance(doc, dict):
            for k, v in doc.items():
                yield from existing_token_paths(v, depth - 1, prefix + (k,))
        elif isinstance(doc, list):
            for i, v in enumerate(doc[:3]):
                yield from existing_token_paths(v, depth - 1, prefix + (i,))


def subtrees(doc, depth=2):
    yield doc
    if depth > 0:
        if isinstance(doc, dict):
            for v in doc.values():
                yield from subtrees(v, depth - 1)
        elif isinstance(doc, list):
            for v in doc:
                yield from subtrees(v, depth - 1)


# ----------------------------------------------------------------------------- classification (listed findings)
JSONPATH_SPECIAL = ".'[]"


def read_mechanism(doc, toks, path):
    if doc is None:
        return "null-document-as-empty-object"
    strs = [t for t in toks if isinstance(t, str)]
    if any(c in t for t in strs for c in JSONPATH_SPECIAL) or "*" in strs:
        return "jsonpath-special-character-key"
    # an index step applied to an object that has a member named like the index (or vice versa)
    cur = doc
    for t in toks:
        if isinstance(cur, dict) and isinstance(t, int) and str(t) in cur:
            return "jsonpath-numeric-key-index-confusion"
        if isinstance(cur, list) and isinstance(t, str) and t.isdigit():
            return "jsonpath-numeric-key-index-confusion"
        try:
            cur = cur[t]
        except Exception:
            break
    return None


def write_mechanism(doc, toks, path, alias):
    strs = [t for t in toks if isinstance(t, str)]
    if any(t.isdigit() or (t.startswith("-") and t[1:].isdigit()) for t in strs):
        return "resultpath-numeric-looking-key"
    if any(c in t for t in strs for c in "'\""):
        return "resultpath-quote-in-key"
    return None


# ----------------------------------------------------------------------------- comparisons
def check_read(ctx, P, doc, toks, path, context=CTX, use_context=False):
    from asl_workflow_engine.asl_exceptions import PathMatchFailure, ParameterPathFailure
    ctx.evaluation()
    source = context if use_context else doc
    try:
        exp = ("value", copy.deepcopy(R.read_path(source, toks)))
    except R.NoMatch:
        exp = ("nomatch",)
        ctx.count("unresolvable_reads")
    d2, c2 = copy.deepcopy(doc), copy.deepcopy(context)
    try:
        got = ("value", P.apply_path(d2, c2, ("$" + path) if use_context else path))
    except PathMatchFailure:
        got = ("nomatch",)
    except Exception as e:
        got = ("exception", type(e).__name__, str(e)[:100])
    ctx.count("reads_compared")
    case = dict(op="read", doc=doc, path=path, context=use_context)
    if len(toks) >= 2 or exp[0] == "nomatch":
        ctx.nontrivial(case)
    if got != exp or (got[0] == "value" and not R.matches(exp[1], got[1])):
        ctx.violation("read-disagrees-with-reference", dict(case, expected=exp, engine=got), read_mechanism(source, toks, path))
    if ctx.counters["reads_compared"] % 4999 == 1:
        ctx.sample(dict(case, expected=exp, engine=got))


def check_write(ctx, P, doc, toks, path, result, alias):
    from asl_workflow_engine.asl_exceptions import ResultPathMatchFailure
    ctx.evaluation()
    if doc is None:
        ctx.count("unspecified")
        return
    d2 = copy.deepcopy(doc)
    if alias == "input":
        r2 = d2
    elif alias == "subtree":
        subs = list(subtrees(d2))
        r2 = subs[result % len(subs)]
        result = copy.deepcopy(r2)
    else:
        r2 = copy.deepcopy(result)
    if alias == "input":
        result = copy.deepcopy(doc)
    try:
        exp = ("value", R.apply_resultpath(doc, result, path))
    except R.StateError as e:
        exp = ("error", e.name)
    try:
        out = P.apply_resultpath(d2, r2, path)
        got = ("value", out) if contracts.finite_json(out) else ("cyclic",)
    except ResultPathMatchFailure:
        got = ("error", "States.ResultPathMatchFailure")
        ctx.count("failed_writes_checked_for_side_effects")
        if alias == "none" and contracts.differs(d2, doc):
            # the raw input is what a Catcher's ResultPath is applied to next: a refused placement must leave it alone
            ctx.violation("refused-resultpath-modified-the-input", dict(op="write", doc=doc, path=path, result=result, alias=alias, after=d2),
                          write_mechanism(doc, toks, path, alias))
    except Exception as e:
        got = ("exception", type(e).__name__, str(e)[:100])
    ctx.count("writes_compared")
    if alias != "none":
        ctx.count("alias_writes")
    case = dict(op="write", doc=doc, path=path, result=result, alias=alias)
    if len(toks) >= 2 or alias != "none" or exp[0] == "error":
        ctx.nontrivial(case)
    ok = got == exp if got[0] != "value" or exp[0] != "value" else R.matches(exp[1], got[1])
    if not ok:
        kind = "resultpath-output-not-a-finite-tree" if got[0] == "cyclic" else "resultpath-raises-other-exception" if got[0] == "exception" \
            else "write-disagrees-with-reference"
        ctx.violation(kind, dict(case, expected=exp, engine=got), write_mechanism(doc, toks, path, alias))
    if ctx.counters["writes_compared"] % 4999 == 1:
        ctx.sample(dict(case, expected=exp, engine=got))


def check_state(ctx, doc, fields, k):
    """One Pass state with the given path fields, real engine vs reference interpreter."""
    st = dict({"Type": "Pass", "End": True}, **fields)
    asl = {"StartAt": "S", "States": {"S": st}}
    try:
        o = R.Interp(asl, None, exec_id="arn:aws:states:local:0123456789:execution:m:e", exec_name="e").run(copy.deepcopy(doc))
    except R.Unspecified:
        ctx.count("unspecified")
        return
    exp = ("SUCCEEDED", o.output) if o.status == "SUCCEEDED" else ("FAILED", o.error)
    res = mini.run(asl, copy.deepcopy(doc))
    got = ("SUCCEEDED", res["output"]) if res["status"] == "SUCCEEDED" else (res["status"], res["error"])
    ctx.evaluation()
    ctx.count("state_level_compared")
    case = dict(op="state", doc=doc, state=st)
    ctx.nontrivial(case)
    ok = got[0] == exp[0] and (R.matches(exp[1], got[1]) if got[0] == "SUCCEEDED" else got[1] == exp[1])
    if not ok:
        mech = None
        if doc is None or o.facts.get("null_docs"):
            mech = "null-document-as-empty-object"
        elif isinstance(exp[1], dict) and exp[1].get("Error") and got[0] == "FAILED":
            mech = "inband-error-member"
        ctx.violation("state-level-path-law", dict(case, expected=exp, engine=got), mech)


def check_catch_state(ctx, doc, kind, fields, k):
    """The Catcher's ResultPath (and a fan-out's own ResultPath) is applied to the RAW input of the state that failed, whatever the state
    inside the fan-out was working on when it failed."""
    FN = "arn:aws:rpcmessage:local::function:"
    inner_fail = {"StartAt": "I1", "States": {"I1": {"Type": "Pass", "Result": {"inner": "doc"}, "Next": "I2"}, "I2": {"Type": "Fail", "Error": "Inner.Failed", "Cause": "c"}}}
    inner_ok = {"StartAt": "J1", "States": {"J1": {"Type": "Pass", "Result": [1, 2], "End": True}}}
    if kind == "Task":
        st = {"Type": "Task", "Resource": FN + "bad"}
    elif kind == "Parallel":
        st = {"Type": "Parallel", "Branches": [inner_ok, inner_fail]}
    elif kind == "Map":
        st = {"Type": "Map", "ItemsPath": "$.mapitems", "ItemProcessor": inner_fail}
        doc = dict(doc, mapitems=[5, {"x": 1}])
    else:       # a nested fan-out failing inside a branch of the caught one
        st = {"Type": "Parallel", "Branches": [{"StartAt": "N", "States": {"N": {"Type": "Map", "ItemsPath": "$.mapitems", "ItemProcessor": inner_fail, "End": True}}}]}
        doc = dict(doc, mapitems=["s"])
    st.update(fields)
    st["Catch"] = [dict({"ErrorEquals": ["States.ALL"], "Next": "H"}, **({"ResultPath": fields["CatchResultPath"]} if "CatchResultPath" in fields else {}))]
    st.pop("CatchResultPath", None)
    st["Next"] = "H"
    asl = {"StartAt": "S", "States": {"S": st, "H": {"Type": "Pass", "Parameters": {"seen.$": "$"}, "End": True}}}
    tasks = lambda fn, p: {"errorType": "Task.Bad", "errorMessage": "m"}
    from lsfverif.gen.machines import task_oracle
    try:
        o = R.Interp(asl, task_oracle({"bad": ["fail", "Task.Bad"]}), exec_id="arn:aws:states:local:0123456789:execution:m:e", exec_name="e").run(copy.deepcopy(doc))
    except R.Unspecified:
        ctx.count("unspecified")
        return
    exp = ("SUCCEEDED", o.output) if o.status == "SUCCEEDED" else ("FAILED", o.error)
    res = mini.run(asl, copy.deepcopy(doc), tasks=tasks)
    got = ("SUCCEEDED", res["output"]) if res["status"] == "SUCCEEDED" else (res["status"], res["error"])
    ctx.evaluation(); ctx.count("state_level_compared"); ctx.count("catcher_resultpath_cases")
    case = dict(op="catch-state", doc=doc, state=st)
    ctx.nontrivial(case)
    ok = got[0] == exp[0] and (R.matches(exp[1], got[1]) if got[0] == "SUCCEEDED" else got[1] == exp[1])
    if not ok:
        mech = None
        if o.facts.get("null_docs"):
            mech = "null-document-as-empty-object"
        elif o.facts.get("error_member_values") and got[0] == "FAILED":
            mech = "inband-error-member"
        ctx.violation("state-level-path-law", dict(case, expected=exp, engine=got), mech)


def run(ctx):
    import asl_workflow_engine.state_engine_paths as P
    contracts.install()
    i = 0
    paths2 = list(all_paths(2))
    d1 = docs_depth1()
    results = [{"r": 1}, [1], "x", None, 0]
    for di, doc in enumerate(d1):
        for pi, (toks, path) in enumerate(paths2):
            i += 1
            if not ctx.mine(i):
                continue
            if ctx.quick and (di * 7 + pi) % 3:      # quick: a fixed third of the product (thorough: all of it)
                continue
            check_read(ctx, P, doc, toks, path)
            check_write(ctx, P, doc, toks, path, results[(di + pi) % len(results)], "none")
            if (di + pi) % 5 == 0:
                check_write(ctx, P, doc, toks, path, None, "input")
            if (di + pi) % 5 == 1:
                check_write(ctx, P, doc, toks, path, di + pi, "subtree")
    # `$$` paths and the null path
    for toks, path in all_paths(2, keys=["Execution", "Id", "State"], idx=(0,)):
        i += 1
        if ctx.mine(i):
            check_read(ctx, P, {"a": 1}, toks, path, use_context=True)
    for doc in d1[:60]:
        i += 1
        if ctx.mine(i):
            ctx.evaluation()
            if P.apply_path(copy.deepcopy(doc), CTX, None) != {}:
                ctx.violation("null-path-is-not-empty-object", dict(doc=doc))
            out = P.apply_resultpath(copy.deepcopy(doc), {"r": 1}, None)
            if doc is not None and out != doc:
                ctx.violation("null-resultpath-does-not-discard", dict(doc=doc, out=out))
            out = P.apply_resultpath(copy.deepcopy(doc), {"r": 1}, "$")
            if out != {"r": 1}:
                ctx.violation("root-resultpath-does-not-replace", dict(doc=doc, out=out))
            try:
                P.apply_resultpath(copy.deepcopy(doc), 1, "$$.x")
                ctx.violation("context-resultpath-accepted", dict(doc=doc))
            except Exception as e:
                if type(e).__name__ != "ResultPathMatchFailure":
                    ctx.violation("resultpath-raises-other-exception", dict(doc=doc, path="$$.x", exc=type(e).__name__))
    # random deeper documents (depth-2 sample at quick; hostile keys at thorough and a slice of quick)
    n_rand = ctx.pick(3000, 900000)
    for k in range(n_rand):
        i += 1
        if not ctx.mine(i):
            continue
        rng = ctx.rng("doc", k)
        hostile = (k % 4 == 0) if ctx.quick else (k % 2 == 0)
        keys = HOSTILE_KEYS if hostile else KEYS + ["k1"]
        doc = rand_doc(rng, ctx.pick(3, 5), keys)
        ex = list(existing_token_paths(doc))
        for _ in range(4):
            toks = list(rng.choice(ex))
            c = rng.random()
            if c < 0.3:
                toks = toks + [rng.choice(keys + [0, 1])]
            elif c < 0.4 and toks:
                toks = toks[:-1] + [rng.choice(keys + [0, 5])]
            path = spell(toks, rng)
            ctx.distinct("hostile_key_paths" if hostile else "plain_paths", path)
            check_read(ctx, P, doc, toks, path)
            alias = rng.choice(["none", "none", "input", "subtree"])
            check_write(ctx, P, doc, toks, path, rand_doc(rng, 2, keys) if alias == "none" else rng.randrange(50), alias)
    # the same laws through the real engine: one Pass state
    n_state = ctx.pick(1200, 150000)
    for k in range(n_state):
        i += 1
        if not ctx.mine(i):
            continue
        rng = ctx.rng("state", k)
        doc = rand_doc(rng, 3, KEYS + ["k1", "my key"])
        if not isinstance(doc, (dict, list)) and rng.random() < 0.7:
            doc = {"v": doc}
        ex = list(existing_token_paths(doc))
        fields = {}
        if rng.random() < 0.5:
            fields["InputPath"] = None if rng.random() < 0.1 else spell(list(rng.choice(ex)) + ([rng.choice(KEYS)] if rng.random() < 0.15 else []), rng)
        if rng.random() < 0.7:
            c = rng.random()
            fields["ResultPath"] = None if c < 0.1 else "$" if c < 0.2 else spell(list(rng.choice(ex)) + ([rng.choice(["r", "a"])] if rng.random() < 0.6 else []), rng)
        if rng.random() < 0.5:
            fields["Result"] = rand_doc(rng, 2, KEYS)
        if rng.random() < 0.3:
            fields["OutputPath"] = None if rng.random() < 0.15 else spell(list(rng.choice(ex))[:1], rng)
        check_state(ctx, doc, fields, k)
    for k in range(ctx.pick(400, 20000)):
        i += 1
        if not ctx.mine(i):
            continue
        rng = ctx.rng("catch", k)
        doc = rand_doc(rng, 2, KEYS + ["k1"])
        if not isinstance(doc, dict):
            doc = {"v": doc}
        ex = [t for t in existing_token_paths(doc) if t]
        fields = {}
        c = rng.random()
        if c < 0.75:
            fields["CatchResultPath"] = None if c < 0.05 else "$" if c < 0.1 else spell(list(rng.choice(ex or [["e"]])) + ([rng.choice(["err", "a"])] if rng.random() < 0.7 else []), rng) if ex else "$.err"
        if rng.random() < 0.3:
            fields["ResultPath"] = spell(list(rng.choice(ex or [["r"]])) + ["r"], rng)
        if rng.random() < 0.25 and ex:
            fields["InputPath"] = spell(list(rng.choice(ex)), rng)
        check_catch_state(ctx, doc, ["Task", "Parallel", "Map", "Nested"][k % 4], fields, k)
    # contracts: what they observed
    for v in contracts.drain():
        mech = None
        ctx.violation("contract:" + v["contract"], v, mech)
    ctx.count("contract_evaluations", sum(contracts.evaluations.values()))
    for name, n in contracts.evaluations.items():
        ctx.count("contract:" + name, n)


WITNESSES = {
    "null-document-as-empty-object": ("read", None, [], "$"),
    "jsonpath-colon-key-as-slice": ("read", {"a:b": 7}, ["a:b"], "$['a:b']"),
    "jsonpath-special-character-key": ("read", {"x.y": 7}, ["x.y"], "$['x.y']"),
    "jsonpath-numeric-key-index-confusion": ("read", {"0": {}}, [0], "$[0]"),
    "resultpath-bracket-quotes": ("write", {"k": 1}, ["a"], "$['a']"),
    "resultpath-alias-cycle": ("alias", {"k": 1}, ["r"], "$.r"),
    "resultpath-numeric-looking-key": ("write", {"k": 1}, ["0"], "$['0']"),
    "resultpath-quote-in-key": ("write", {"k": 1}, ["it's"], "$['it\\'s']"),
}


def witnesses(ctx):
    import asl_workflow_engine.state_engine_paths as P
    for fid, (op, doc, toks, path) in WITNESSES.items():
        sub = type(ctx)(ctx.check_id, ctx.tier, ctx.seed)
        if op == "read":
            check_read(sub, P, doc, toks, path)
        elif op == "write":
            check_write(sub, P, doc, toks, path, {"r": 1}, "none")
        else:
            check_write(sub, P, doc, toks, path, None, "input")
        ctx.witness(fid, bool(sub.violation_counts), sub.violations[0]["witness"] if sub.violations else None)
        # a witness of a finding that is not (or no longer) listed is an ordinary case
        for v in sub.violations:
            ctx.violation(v["kind"], v["witness"], fid)
    # the in-band error convention seen from this property: selecting '$' of a document that merely has a member called Error
    sub = type(ctx)(ctx.check_id, ctx.tier, ctx.seed)
    check_state(sub, {"Error": "just data", "k": 1}, {}, 0)
    hit = [v for v in sub.violations if v["mechanism"] == "inband-error-member"]
    ctx.witness("inband-error-member", bool(hit), hit[0]["witness"] if hit else None)
    for v in sub.violations:
        ctx.violation(v["kind"], v["witness"], v["mechanism"])


def replay(ctx, doc):
    import asl_workflow_engine.state_engine_paths as P
    w = doc["witness"]
    if w.get("op") == "read":
        toks = R.parse_path(w["path"])
        check_read(ctx, P, w["doc"], toks, w["path"], use_context=w.get("context", False))
    elif w.get("op") == "write":
        check_write(ctx, P, w["doc"], R.parse_path(w["path"]), w["path"], w["result"], "input" if w["alias"] == "input" else "none")
    elif w.get("op") == "state":
        check_state(ctx, w["doc"], {k: v for k, v in w["state"].items() if k not in ("Type", "End")}, 0)
    else:
        print("contract violation witness:", json.dumps(w)[:2000])
