"""
Online monitors attached to a simulated world.  Each monitor only *records* violations (dicts with a
`rule`, the step / operation number and enough facts for the classifier); deciding which property a
violation belongs to, and whether it matches a listed finding, is done by the checks.

  NotificationMonitor   per-execution status automaton on the notification topic (C02, C06, C11)
  RecordMonitor         execution record + history snapshots after every step (C02, C09, C11)
  AckMonitor            broker-operation-level acknowledgement rules A1-A4 (C03, C06)
"""
import json, collections, copy
from lsfverif.sim.world import EVENTQ, REPLYQ, TOPIC

TERMINAL = ("SUCCEEDED", "FAILED")


def exec_of_body(body):
    try:
        return json.loads(body)["context"]["Execution"]["Id"]
    except Exception:
        return None


class Monitor(object):
    def __init__(self, world):
        self.w = world
        self.violations = []
        self.seen = collections.Counter()

    def flag(self, rule, **facts):
        facts.update(rule=rule, step=self.w.broker.step, op=len(self.w.broker.oplog), t=self.w.clock.now)
        self.violations.append(facts)


class NotificationMonitor(Monitor):
    """RUNNING -> exactly one of SUCCEEDED/FAILED, once each; subject, shape and millisecond clauses."""

    def __init__(self, world, express=()):
        super().__init__(world)
        self.status = {}            # arn -> list of (status, step)
        self.express = set(express)
        world.broker.taps.setdefault(TOPIC, []).append(self.on_note)
        self.crash_steps = []

    def on_note(self, routing_key, body, props):
        self.seen["notifications"] += 1
        ev = json.loads(body)
        d = ev.get("detail", {})
        arn, st = d.get("executionArn"), d.get("status")
        hist = self.status.setdefault(arn, [])
        prev = [s for s, _ in hist]
        if st == "RUNNING":
            if "RUNNING" in prev:
                # a restarted engine legitimately re-announces RUNNING for a redelivered start event
                self.flag("N-duplicate-running", arn=arn, after_crash=bool(self.w.crashes))
            if any(s in TERMINAL for s in prev):
                self.flag("N-running-after-terminal", arn=arn)
        elif st in TERMINAL:
            if "RUNNING" not in prev:
                self.flag("N-terminal-without-running", arn=arn, status=st, after_crash=bool(self.w.crashes))
            if any(s in TERMINAL for s in prev):
                self.flag("N-second-terminal", arn=arn, first=[s for s in prev if s in TERMINAL][0], second=st,
                          cause=str(d.get("cause"))[:200], error=d.get("error"))
        else:
            self.flag("N-unknown-status", arn=arn, status=st)
        hist.append((st, self.w.broker.step))
        # subject and CloudWatch shape
        if routing_key != "%s.%s" % (d.get("stateMachineArn"), st):
            self.flag("N-subject", arn=arn, subject=routing_key)
        for k in ("version", "id", "detail-type", "source", "account", "time", "region", "resources", "detail"):
            if k not in ev:
                self.flag("N-shape-missing-" + k, arn=arn)
        if ev.get("detail-type") != "Step Functions Execution Status Change" or ev.get("source") != "aws.states" \
                or ev.get("resources") != [arn]:
            self.flag("N-shape", arn=arn, event={k: ev.get(k) for k in ("detail-type", "source", "resources")})
        for k in ("executionArn", "stateMachineArn", "name", "status", "startDate", "stopDate", "input", "output"):
            if k not in d:
                self.flag("N-detail-missing-" + k, arn=arn)
        sd, ed = d.get("startDate"), d.get("stopDate")
        if not (isinstance(sd, int) and not isinstance(sd, bool)):
            self.flag("N-startdate-not-ms-int", arn=arn, value=sd)
        if st in TERMINAL:
            if not isinstance(ed, int) or isinstance(ed, bool):
                self.flag("N-stopdate-not-ms-int", arn=arn, value=ed)
            elif ed != int(self.w.clock.now * 1000):
                self.flag("N-stopdate-value", arn=arn, value=ed, now_ms=int(self.w.clock.now * 1000))
        elif ed is not None:
            self.flag("N-stopdate-on-running", arn=arn, value=ed)

    def current(self, arn):
        h = self.status.get(arn)
        return h[-1][0] if h else None

    def running(self):
        return [a for a, h in self.status.items() if not any(s in TERMINAL for s, _ in h)]

    def all_arns(self):
        return list(self.status)


def shape_violations(rec):
    """C02 record shape: stopDate iff terminal, output iff SUCCEEDED, error/cause iff FAILED."""
    out = []
    st = rec.get("status")
    if st not in ("RUNNING",) + TERMINAL:
        out.append("status=%r" % (st,))
    term = st in TERMINAL
    if term != (rec.get("stopDate") is not None):
        out.append("stopDate %r with status %s" % (rec.get("stopDate"), st))
    if (st == "SUCCEEDED") != (rec.get("output") is not None):
        out.append("output %s with status %s" % ("set" if rec.get("output") is not None else "unset", st))
    if (st == "FAILED") != (rec.get("error") is not None):
        out.append("error %r with status %s" % (rec.get("error"), st))
    if st != "FAILED" and rec.get("cause") is not None:
        out.append("cause set with status %s" % st)
    return out


def history_violations(h, record=None):
    """C09 structural rules on one history list (complete prefix)."""
    out = []
    if not h:
        return out
    for i, ev in enumerate(h):
        if ev.get("id") != i + 1:
            out.append(("H-id", "position %d has id %r" % (i, ev.get("id")))); break
        if ev.get("previousEventId") != i:
            out.append(("H-previous", "event %d previousEventId %r" % (i + 1, ev.get("previousEventId")))); break
        if i and ev.get("timestamp") < h[i - 1].get("timestamp"):
            out.append(("H-timestamp-decreases", "event %d" % (i + 1))); break
    if h[0].get("type") != "ExecutionStarted":
        out.append(("H-first-not-started", h[0].get("type")))
    terms = [i for i, ev in enumerate(h) if ev.get("type") in ("ExecutionSucceeded", "ExecutionFailed")]
    if len(terms) > 1:
        out.append(("H-multiple-terminal-events", [h[i]["type"] for i in terms]))
    if terms and terms[0] != len(h) - 1:
        out.append(("H-events-after-terminal", [ev.get("type") for ev in h[terms[0] + 1:]][:6]))
    if record is not None:
        st = record.get("status")
        if st in TERMINAL and not terms:
            out.append(("H-terminal-record-without-terminal-event", st))
        if terms:
            ev = h[terms[0]]
            if ev["type"] == "ExecutionSucceeded":
                if st != "SUCCEEDED" or ev.get("executionSucceededEventDetails", {}).get("output") != record.get("output"):
                    out.append(("H-terminal-event-disagrees-with-record", dict(event=ev["type"], status=st)))
            else:
                det = ev.get("executionFailedEventDetails", {})
                if st != "FAILED" or det.get("error") != record.get("error"):
                    out.append(("H-terminal-event-disagrees-with-record", dict(event=ev["type"], status=st, ev_error=det.get("error"), rec_error=record.get("error"))))
    return out


class RecordMonitor(Monitor):
    """Snapshots of executions[arn] / execution_history[arn] after every scheduler step."""
    FIELDS = ("status", "output", "error", "cause", "stopDate")

    def __init__(self, world, notes, express=(), every=1):
        super().__init__(world)
        self.notes = notes
        self.express = set(express)
        self.frozen = {}            # arn -> terminal snapshot
        self.reported = {}
        self.hist_len = {}
        self.terminal_hist = {}
        world.step_hooks.append(self.on_step)
        self.every = every
        self.n = 0

    def stores(self):
        for iid, e in self.w.engines.items():
            yield iid, e.se.executions, e.se.execution_history

    def on_step(self, world, act):
        self.n += 1
        if self.n % self.every:
            return
        self.check_now()

    def check_now(self):
        w = self.w
        for iid, execs, hists in self.stores():
            for arn in list(self.notes.status):
                rec = execs.get(arn)
                if arn in self.express:
                    if rec or hists.get(arn):
                        self.flag("R-express-has-record-or-history", arn=arn)
                    continue
                if not rec:
                    continue            # (a Redis-backed store returns an empty proxy for a missing key)
                rec = dict(rec)
                self.seen["record_snapshots"] += 1
                probs = shape_violations(rec)
                if probs:
                    self.flag("R-shape", arn=arn, problems=probs, record={k: rec.get(k) for k in self.FIELDS})
                # startDate / stopDate stay epoch seconds in the store (publishing must not alter the record)
                sd = rec.get("startDate")
                if sd is not None and sd > 1e11:
                    self.flag("R-startdate-left-in-ms", arn=arn, value=sd)
                if rec.get("stopDate") is not None and rec["stopDate"] > 1e11:
                    self.flag("R-stopdate-left-in-ms", arn=arn, value=rec["stopDate"])
                snap = {k: rec.get(k) for k in self.FIELDS}
                if arn in self.frozen:
                    if snap != self.frozen[arn]:
                        self.flag("R-terminal-record-changed", arn=arn, before=self.frozen[arn], after=snap)
                        self.frozen[arn] = snap
                elif rec.get("status") in TERMINAL:
                    self.frozen[arn] = snap
                # surfaces: record vs last notification
                last = self.notes.current(arn)
                if last is not None and last != rec.get("status") and not w.crashes:
                    self.flag("S-record-vs-notification", arn=arn, record=rec.get("status"), notification=last)
                h = hists.get(arn)
                if h is None:
                    continue
                h = list(h)
                self.seen["history_snapshots"] += 1
                self.seen["history_events_checked"] += len(h)
                for rule, detail in history_violations(h, rec):
                    # a persisting condition is reported once, and again only when the history has grown since
                    key = (iid, arn, rule)
                    if self.reported.get(key) == len(h):
                        continue
                    self.reported[key] = len(h)
                    self.flag(rule, arn=arn, detail=detail, types=[e.get("type") for e in h][-8:], history_len=len(h))
                if h and h[0].get("type") == "ExecutionStarted" and not w.crashes:
                    if h[0].get("executionStartedEventDetails", {}).get("input") != rec.get("input"):
                        self.flag("H-started-input", arn=arn)
                n0 = self.hist_len.get((iid, arn), 0)
                if len(h) < n0:
                    self.flag("H-history-shrank", arn=arn, before=n0, after=len(h))
                self.hist_len[(iid, arn)] = len(h)
                break       # a shared store is checked through the first engine only (others via REST in C11)


class AckMonitor(Monitor):
    """Rules A1-A3 evaluated at every engine broker operation; A4 (drain) on demand."""

    def __init__(self, world, notes):
        super().__init__(world)
        self.notes = notes
        self.mid_exec = {}              # message_id -> execution arn (event messages)
        self.mid_info = {}              # message_id -> dict(state, branch)
        self.seq_acks = collections.Counter()   # broker message seq -> number of acks
        self.step_subject = {}          # step -> message_id of the event the step is about
        self.step_exec = {}             # step -> execution arn the step is about
        self.rpc = {}                   # correlation id -> dict(exec, state)
        self.a3 = {}
        self.delivered_events = {}      # seq -> dict(message_id, queue, step)
        self.a5_pending = []            # acks of branch-end events awaiting the end of their step
        self.step_pubs = {}             # step -> [(execution, branch depth | None, terminal status?)]
        world.broker.hooks.append(self.on_op)
        world.step_hooks.append(self.end_of_step)

    # ------------------------------------------------------------------ helpers
    @staticmethod
    def is_engine(conn):
        return (conn or "").startswith("engine:")

    @staticmethod
    def is_eventq(name):
        return (name or "").startswith(EVENTQ)

    @staticmethod
    def base_cid(cid):
        if cid is None:
            return None
        for suf in (".waitForTaskToken", ".invoke"):
            if cid.endswith(suf):
                return cid[:-len(suf)]
        return cid

    def timer_subject_step(self, step):
        """Follow armed_step chains from a timer step back to the delivery/reply step that armed it."""
        seen = 0
        info = self.w.step_info.get(step)
        while info and info.get("kind") == "timer" and seen < 100:
            step = info.get("armed_step")
            info = self.w.step_info.get(step)
            seen += 1
        return step

    def subject_of(self, step):
        if step in self.step_subject:
            return self.step_subject[step]
        return self.step_subject.get(self.timer_subject_step(step))

    def exec_of_step(self, step):
        if step in self.step_exec:
            return self.step_exec[step]
        return self.step_exec.get(self.timer_subject_step(step))

    # ------------------------------------------------------------------ A5: the event that ENDS a branch is held until its join is decided
    @staticmethod
    def locate_state(defn, name):
        """-> (state, chain of enclosing fan-out states, innermost last) or (None, [])"""
        def walk(machine, chain):
            states = machine.get("States") if isinstance(machine, dict) else None
            if not isinstance(states, dict):
                return None
            if name in states and isinstance(states[name], dict):
                return states[name], chain
            for st in states.values():
                if not isinstance(st, dict):
                    continue
                subs = list(st.get("Branches") or []) if st.get("Type") == "Parallel" else [st.get("ItemProcessor") or st.get("Iterator")] if st.get("Type") == "Map" else []
                for sub in subs:
                    r = walk(sub, chain + [st]) if isinstance(sub, dict) else None
                    if r:
                        return r
            return None
        return walk(defn, []) or (None, [])

    def note_branch_end_ack(self, rec):
        info = self.mid_info.get(rec.get("message_id"))
        if not info or not info["branch"]:
            return
        iid = (rec["conn"] or "").split(":", 1)[-1]
        eng = self.w.engines.get(iid)
        if eng is None:
            return
        try:
            defn = info["defn"] or eng.se.asl_store[info["sm"]]["definition"]
            if isinstance(defn, str):
                defn = json.loads(defn)
        except Exception:
            return
        try:
            st, chain = self.locate_state(defn, info["name"]) if isinstance(info["name"], str) else (None, [])
        except Exception:
            st, chain = None, []        # (a definition the monitor cannot walk: poison definitions are C18's business, the monitor must never raise into the engine)
        if st is None or st.get("Type") in ("Parallel", "Map", "Fail") or not (st.get("End") is True or st.get("Type") == "Succeed"):
            return
        ex = self.mid_exec.get(rec["message_id"])
        bm = eng.se.branch_metadata.get(ex)
        terminated = bm is None
        if bm is not None:
            for bid in info["branch"]:
                r = bm.results.get(bid)
                if r is not None and r.get("terminated"):
                    terminated = True
        self.seen["branch_end_event_acks"] += 1
        self.a5_pending.append(dict(step=rec["step"], mid=rec["message_id"], ex=ex, depth=len(info["branch"]), state=info["name"], terminated=terminated,
                                    inner_end_join=bool(len(chain) >= 2 and chain[-1].get("End") is True)))

    def end_of_step(self, world, act):
        keep = []
        for p in self.a5_pending:
            pubs = self.step_pubs.get(p["step"], [])
            consequence = any(ex == p["ex"] and (term or (depth is not None and depth < p["depth"])) for ex, depth, term in pubs)
            running = p["ex"] in self.notes.running() if self.notes else True
            if not consequence and not p["terminated"] and running:
                self.flag("A5-branch-end-event-acknowledged-before-its-join-was-decided", subject=p["mid"], state=p["state"], ack_step=p["step"],
                          inner_end_join=p["inner_end_join"])
        self.a5_pending = keep
        for st in [k for k in self.step_pubs if k < world.broker.step - 2]:
            del self.step_pubs[st]

    # ------------------------------------------------------------------ hook
    def on_op(self, rec):
        op, conn = rec["op"], rec["conn"] or ""
        if op == "basic_publish" and self.is_eventq(rec["routing_key"]) and rec["exchange"] == "":
            ex = exec_of_body(rec["body"])
            mid = rec["props"].get("message_id")
            if mid is not None:
                self.mid_exec[mid] = ex
            depth = None
            try:
                c = json.loads(rec["body"])["context"]
                br = c["State"].get("Branch") or []
                depth = len(br)
                if mid is not None:
                    self.mid_info[mid] = dict(name=c["State"].get("Name"), branch=[b.get("ID") for b in br], sm=c["StateMachine"].get("Id"), defn=c["StateMachine"].get("Definition"))
            except Exception:
                pass
            if self.is_engine(conn):
                self.step_pubs.setdefault(rec["step"], []).append((ex, depth, False))
        if op == "basic_publish" and self.is_engine(conn) and rec["exchange"] == TOPIC:
            try:
                d = json.loads(rec["body"])["detail"]
                if d.get("status") != "RUNNING":
                    self.step_pubs.setdefault(rec["step"], []).append((d.get("executionArn"), None, True))
            except Exception:
                pass
        if op == "basic_ack" and self.is_engine(conn) and self.is_eventq(rec.get("queue")):
            try:
                self.note_branch_end_ack(rec)
            except Exception:
                self.seen["a5_monitor_errors"] += 1
        if op == "basic_publish" and self.is_engine(conn) and rec["props"].get("reply_to") and rec["exchange"] == "":
            cid = rec["props"]["correlation_id"]
            self.rpc[cid] = dict(exec=self.mid_exec.get(self.base_cid(cid)) or self.exec_of_step(rec["step"]), state="out",
                                 routed=bool(rec.get("routed")))
        if op == "deliver" and self.is_engine(conn):
            if self.is_eventq(rec["queue"]):
                self.step_subject[rec["step"]] = rec["message_id"]
                self.step_exec[rec["step"]] = self.mid_exec.get(rec["message_id"])
                self.delivered_events[rec["seq"]] = dict(message_id=rec["message_id"], queue=rec["queue"], step=rec["step"])
                self.seen["event_deliveries"] += 1
            elif (rec["queue"] or "").startswith(REPLYQ):
                cid = rec["correlation_id"]
                if cid in self.rpc:
                    self.rpc[cid]["state"] = "done"
                base = self.base_cid(cid)
                self.step_subject[rec["step"]] = base
                self.step_exec[rec["step"]] = self.mid_exec.get(base) or (self.rpc.get(cid) or {}).get("exec")
                self.seen["reply_deliveries"] += 1
        if op == "basic_ack" and self.is_engine(conn):
            self.seen["acks"] += 1
            if not rec["known"]:
                self.flag("A1-ack-of-unknown-or-already-acked-tag", tag=rec["tag"], conn=conn)
            for s in rec.get("acked_seqs", []):
                self.seq_acks[s] += 1
                if self.seq_acks[s] > 1:
                    self.flag("A1-double-ack", seq=s)
            if rec.get("multiple") and len(rec.get("acked_seqs", [])) > 1:
                self.flag("A1-ack-removed-other-deliveries", acked=rec.get("acked_seqs"))
        if not self.is_engine(conn):
            return
        if op in ("basic_publish", "basic_ack"):
            self.seen["engine_ops_checked"] += 1
            self.check_a3(rec)
            self.check_a2(rec)

    # A3: after the step's subject event was acked, no further event/status publish for that execution
    def check_a3(self, rec):
        step = rec["step"]
        subj = self.subject_of(step)
        if subj is None:
            return
        s = self.a3.setdefault(step, dict(acked=False))
        if rec["op"] == "basic_ack" and rec.get("queue") and self.is_eventq(rec["queue"]) and rec.get("message_id") == subj:
            s["acked"] = True
            return
        if s["acked"] and rec["op"] == "basic_publish":
            ex = self.mid_exec.get(subj)
            rk = rec["routing_key"]
            pub_ex = exec_of_body(rec["body"]) if self.is_eventq(rk) and rec["exchange"] == "" else None
            is_status = False
            if rec["exchange"] == TOPIC:
                try:
                    is_status = json.loads(rec["body"])["detail"]["executionArn"] == ex
                except Exception:
                    pass
            if (pub_ex is not None and pub_ex == ex) or is_status:
                self.flag("A3-consequence-issued-after-ack-of-subject-event", subject=subj, routing_key=rk[-40:],
                          status_change=is_status, step_kind=self.w.step_info.get(step, {}).get("kind"),
                          step_cb=self.w.step_info.get(step, {}).get("cb"))

    def carriers(self):
        c = collections.Counter()
        b = self.w.broker
        for q in b.queues.values():
            if self.is_eventq(q.name):
                for m in q.messages:
                    c[exec_of_body(m.body)] += 1
        for conn in b.connections:
            for ch in conn.channels:
                for tag, (qn, m) in ch.unacked.items():
                    if self.is_eventq(qn):
                        c[exec_of_body(m.body)] += 1
        for cid, r in self.rpc.items():
            if r["state"] != "done" and r["routed"]:
                c[r["exec"]] += 1
        for conn in b.connections:
            if self.is_engine(conn.name):
                for t in conn.timers:
                    if not self.w.is_housekeeping(t):
                        ex = self.exec_of_step(t.armed_step)
                        if ex:
                            c[ex] += 1
        if b.returns:
            for ch, method, props, body in b.returns:
                r = self.rpc.get(props.correlation_id)
                if r:
                    c[r["exec"]] += 1
        return c

    def check_a2(self, rec):
        running = self.notes.running()
        if not running:
            return
        c = self.carriers()
        for ex in running:
            if c[ex] == 0:
                self.flag("A2-running-execution-without-carrier", arn=ex, at_op=rec["op"], step_kind=self.w.step_info.get(rec["step"], {}).get("kind"),
                          step_cb=self.w.step_info.get(rec["step"], {}).get("cb"))

    # A4: drain
    def drain(self, label="quiescence"):
        w = self.w
        self.seen["drain_checks"] += 1
        for iid, e in w.engines.items():
            facts = dict(unacknowledged_messages=len(e.ed.unacknowledged_messages), pending_requests=len(e.td.pending_requests),
                         cancellers=len(e.td.cancellers), orphaned_responses=len(e.td.orphaned_responses),
                         branch_metadata=len(e.se.branch_metadata),
                         channel_unacked=sum(len(ch.unacked) for ch in e.conn.channels),
                         timers=[getattr(t.cb, "__qualname__", "?") for t in e.conn.timers if not w.is_housekeeping(t)])
            bad = {k: v for k, v in facts.items() if v}
            if bad:
                self.flag("A4-leftover-engine-state", iid=iid, leftovers=bad, when=label)
        for q in w.broker.queues.values():
            if (self.is_eventq(q.name) or q.name.startswith(REPLYQ)) and q.messages:
                self.flag("A4-messages-left-in-queue", queue=q.name, n=len(q.messages), when=label)
