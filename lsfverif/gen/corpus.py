"""
Shared scenario corpora: generated well-formed machines with task behaviours and the reference's admissible
outcome set, packaged as scenarios for mon.scenario.execute.  Used by C01 and, with other schedules and
monitors, by C02/C03/C09/C11.
"""
import copy, json
from lsfverif.ref import asl as R
from lsfverif.gen import machines as G

EXEC_ARN = "arn:aws:states:local:0123456789:execution:m:e"
SM_ARN = "arn:aws:states:local:0123456789:stateMachine:m"


def generated_case(rng, depth=2, max_states=5, allow=None, typ="STANDARD", dict_input=True, p_catch=0.4, p_retry=0.4, p_missing_path=0.05):
    """-> dict(scenario, asl, input, funcs, features) ; reference outcomes are computed by `reference()`."""
    kw = {}
    if allow:
        kw["allow"] = allow
    g = G.Gen(rng, max_states=max_states, p_catch=p_catch, p_retry=p_retry, p_missing_path=p_missing_path, **kw)
    data = G.gen_json(rng, 2)
    if dict_input and not isinstance(data, dict):
        data = {"v": data}
    asl = g.machine(data, depth=depth)
    scn = {"machines": {"m": {"asl": asl, "type": typ}}, "funcs": g.funcs,
           "starts": [{"machine": "m", "name": "e", "input": data}]}
    return dict(scenario=scn, asl=asl, input=data, funcs=g.funcs, features=sorted(g.features))


def reference(case, limit=64):
    """Admissible outcomes (list of ref Outcome) or raises R.Unspecified."""
    return R.outcomes(case["asl"], lambda: G.task_oracle(case["funcs"]), case["input"], limit=limit,
                      exec_id=EXEC_ARN, exec_name="e", sm_id=SM_ARN)


def agrees(outs, status, output, error):
    return any(o.status == status and (R.matches(o.output, output) if status == "SUCCEEDED" else o.error == error) for o in outs)


def state_types(asl):
    return sorted({st.get("Type") for _, st in G.all_states(asl)})


def nontrivial(case):
    asl = case["asl"]
    types = state_types(asl)
    has_fanout = "Parallel" in types or "Map" in types
    path_fields = any(k in st for _, st in G.all_states(asl) for k in ("InputPath", "OutputPath", "ResultPath", "Parameters", "ResultSelector", "ItemSelector"))
    return (len(types) >= 3 or has_fanout) and path_fields
