"""
Scenario families for the schedule-quantified properties (C02, C03, C05, C06, C09, C11).

Every family returns a scenario (see mon.scenario) plus `meta`: which family, fan-out shape, which branches fail,
expected outputs where the family determines them (so the checks have an oracle that does not need the engine).
"""
import copy, json
from lsfverif.gen.machines import FN_PREFIX

P = lambda **kw: dict(Type="Pass", **kw)
T = lambda fn, **kw: dict(Type="Task", Resource=FN_PREFIX + fn, **kw)
W = lambda s, **kw: dict(Type="Wait", Seconds=s, **kw)
# the "long form" of the same function call (Resource ...:rpcmessage:invoke, the function named in Parameters); OutputPath selects the
# function's own result out of the metadata dictionary, so that it is a drop-in replacement for T where no path field is given
TL = lambda fn, **kw: dict(Type="Task", Resource="arn:aws:states:local::rpcmessage:invoke", Parameters={"FunctionName": FN_PREFIX + fn, "Payload.$": "$"},
                           OutputPath="$.Payload", **kw)


def task(rng, fn, **kw):
    """T or, one time in four, TL."""
    if rng is not None and not any(k in kw for k in ("ResultPath", "OutputPath", "Parameters", "ResultSelector", "InputPath")) and rng.random() < 0.25:
        return TL(fn, **kw)
    return T(fn, **kw)


def chain(states):
    """[(name, state)] -> States dict with Next/End filled in."""
    out = {}
    for i, (n, st) in enumerate(states):
        st = dict(st)
        if st.get("Type") not in ("Fail", "Succeed", "Choice"):
            if i == len(states) - 1:
                st["End"] = True
            else:
                st["Next"] = states[i + 1][0]
        out[n] = st
    return {"StartAt": states[0][0], "States": out}


class Names(object):
    def __init__(self, prefix="S"):
        self.n, self.prefix = 0, prefix

    def __call__(self):
        self.n += 1
        return "%s%d" % (self.prefix, self.n)


def body(rng, names, kind=None, fail=None, depth=0, max_len=3, tag=None):
    """A branch/iterator body: a chain of Task/Wait/Pass states ('echo' tasks pass data through).
    fail: None | 'task' | 'state'  -> the LAST state of the chain fails (task error / Fail state)."""
    n = rng.randint(1, max_len)
    sts = []
    for i in range(n):
        k = kind or rng.choice(["Task", "Task", "Wait", "Pass"])
        if k == "Task":
            sts.append((names(), task(rng, "echo")))
        elif k == "Wait":
            sts.append((names(), W(rng.randint(1, 4))))
        else:
            sts.append((names(), P()))
    if depth > 0 and rng.random() < 0.5:
        sts.insert(rng.randint(0, len(sts)), (names(), fanout(rng, names, depth - 1)[0]))
    if fail is None and rng.random() < 0.3:
        # branch outputs that are falsy but not null are ordinary results
        sts.append((names(), P(Result=copy.deepcopy(rng.choice(FALSY))) if rng.random() < 0.5 else task(rng, rng.choice(["zero", "empty", "nil"]))))
    if fail is None and rng.random() < 0.15:
        sts.append((names(), {"Type": "Succeed"}))      # a branch may end in a Succeed state as well as in End:true
    if fail == "task":
        sts.append((names(), task(rng, "boom")))
    elif fail == "state":
        sts.append((names(), {"Type": "Fail", "Error": "Branch.Failed", "Cause": "because"}))
    return chain(sts)


def fanout(rng, names, depth=0, kind=None, fail_index=None, fail_kind="task", n=None, handlers=None):
    """-> (state dict without Next/End, meta).  Parallel: branches tag their output; Map: items are unique ids."""
    kind = kind or rng.choice(["Parallel", "Map"])
    n = n if n is not None else rng.randint(2, 4)
    st = {"Type": kind}
    if kind == "Parallel":
        st["Branches"] = [body(rng, names, fail=(fail_kind if fail_index == i else None), depth=depth) for i in range(n)]
    else:
        st["ItemsPath"] = "$.items"
        st["ItemProcessor"] = body(rng, names, fail=None, depth=depth)
        if rng.random() < 0.6:
            st["MaxConcurrency"] = rng.randint(0, n + 1)
    if handlers:
        st.update(copy.deepcopy(handlers))
    return st, dict(kind=kind, n=n, fail_index=fail_index)


def items(n, tag="it", depth=1):
    """Unique ids so that a request identifies its item; every item carries its own nested `items` array so that
    a nested Map finds its ItemsPath."""
    return [dict({"id": "%s%d" % (tag, i), "i": i}, **({"items": items(2, "%s%d." % (tag, i), depth - 1)} if depth > 0 else {})) for i in range(n)]


FUNCS = {"echo": ["echo"], "boom": ["fail", "Boom"], "wrap": ["wrap"], "zero": ["const", 0], "empty": ["const", {}], "nil": ["const", []],
         "slow3": ["slow", 3], "slow30": ["slow", 30]}
FALSY = [{}, [], 0, "", False]


def sequential(rng):
    names = Names()
    sts = []
    for i in range(rng.randint(1, 6)):
        k = rng.choice(["Pass", "Task", "Task", "Wait", "Choice"])
        if k == "Pass":
            sts.append((names(), P(ResultPath="$.p%d" % i, Result=i)))
        elif k == "Task":
            st = T(rng.choice(["echo", "echo", "flaky"]))
            if rng.random() < 0.5:
                st["Retry"] = [{"ErrorEquals": ["Flaky"], "IntervalSeconds": rng.randint(1, 3), "MaxAttempts": 2}]
            sts.append((names(), st))
        elif k == "Wait":
            sts.append((names(), W(rng.randint(1, 5))))
        else:
            sts.append((names(), P()))
    end = rng.random()
    if end < 0.15:
        sts.append((names(), {"Type": "Fail", "Error": "Seq.Failed", "Cause": "c"}))
    elif end < 0.3:
        sts.append((names(), T("boom")))
    elif end < 0.4:
        sts.append((names(), {"Type": "Succeed"}))
    asl = chain(sts)
    funcs = dict(FUNCS, flaky=["flaky", ["Flaky"]])
    return asl, funcs, dict(family="sequential")


def fanout_machine(rng, fail="none", depth=1, handlers=None, kind=None, n=None):
    """fail: 'none' | 'one' (exactly one branch/iteration ends in an unhandled failure)."""
    names = Names()
    nb = n if n is not None else rng.randint(2, 4)
    fail_index = rng.randrange(nb) if fail == "one" else None
    st, meta = fanout(rng, names, depth=depth if fail == "none" else 0, kind=kind, fail_index=fail_index,
                      fail_kind=rng.choice(["task", "state"]), n=nb, handlers=handlers)
    if st["Type"] == "Map" and fail == "one":
        # the failing iteration is selected by the item: a Choice on $.i routes it to a failing state
        nm = Names("M")
        good, bad = nm(), nm()
        st["ItemProcessor"] = {"StartAt": "Route", "States": {
            "Route": {"Type": "Choice", "Choices": [{"Variable": "$.i", "NumericEquals": fail_index, "Next": bad}], "Default": good},
            good: T(rng.choice(["echo", "echo", "zero", "empty"]), End=True), bad: T("boom", End=True)}}
    pre, post = names(), names()
    sts = [(pre, P()), ("Fan", st)]
    if rng.random() < 0.7:
        sts.append((post, T("echo") if rng.random() < 0.5 else P()))
    asl = chain(sts)
    meta.update(family="fanout-" + fail, fan_state="Fan")
    return asl, dict(FUNCS), meta


def scenario(rng, family=None, n_exec=None, via=("event",), typ="STANDARD", config=None):
    family = family or rng.choice(["sequential", "fanout-none", "fanout-one"])
    if family == "sequential":
        asl, funcs, meta = sequential(rng)
    elif family == "retried-fanout":
        asl, funcs, meta = retried_fanout(rng)
    else:
        asl, funcs, meta = fanout_machine(rng, fail=family.split("-")[1], depth=rng.choice([0, 0, 1]))
    n_exec = n_exec or rng.randint(1, 3)
    starts = []
    for i in range(n_exec):
        data = {"x": i, "items": items(meta.get("n", 3), "e%d-" % i)}
        starts.append({"machine": "m", "name": "e%d" % i, "input": data, "via": rng.choice(list(via))})
    scn = {"machines": {"m": {"asl": asl, "type": typ}}, "funcs": funcs, "starts": starts, "config": config or {}}
    return scn, meta


def retried_fanout(rng, kind=None, n=None, catch=False):
    """A Parallel/Map with a Retrier whose body fails on the first attempt(s) of each distinct payload ('flaky' task)
    and succeeds afterwards: the fan-out is re-run as a whole."""
    names = Names()
    kind = kind or rng.choice(["Parallel", "Map"])
    n = n or rng.randint(2, 3)
    handlers = {"Retry": [{"ErrorEquals": ["Flaky"], "IntervalSeconds": rng.randint(1, 2), "MaxAttempts": 4, "BackoffRate": 1.0}]}
    if catch:
        handlers["Catch"] = [{"ErrorEquals": ["States.ALL"], "Next": "After", "ResultPath": "$.err"}]
    mk = lambda: chain([(names(), T("flaky" if rng.random() < 0.7 else "echo")), (names(), T("echo"))] + ([(names(), W(rng.randint(1, 2)))] if rng.random() < 0.4 else []))
    if kind == "Parallel":
        st = {"Type": "Parallel", "Branches": [mk() for _ in range(n)]}
    else:
        st = {"Type": "Map", "ItemsPath": "$.items", "ItemProcessor": chain([(names(), T("flaky")), (names(), T("echo"))])}
        if rng.random() < 0.5:
            st["MaxConcurrency"] = rng.randint(1, n)
    st.update(handlers)
    asl = chain([("Pre", P()), ("Fan", st), ("After", P())])
    funcs = dict(FUNCS, flaky=["flaky", ["Flaky"]])
    return asl, funcs, dict(family="retried-fanout", kind=kind, n=n, fan_state="Fan")
