#!/bin/sh
# usage: tools_seedtest.sh <patch.diff> <check id> [tier]   -- applies a seeded change to /repo, runs the check, undoes it
P="$1"; C="$2"; T="${3:-quick}"
cd /repo || exit 9
git diff --quiet || { echo "repo dirty"; exit 9; }
if git apply --check "$P" 2>/dev/null; then git apply "$P"; elif git apply --3way "$P" >/dev/null 2>&1; then git reset -q; else git reset -q --hard; echo "PATCH-DOES-NOT-APPLY $P"; exit 8; fi
cd /verif && ./check "$C" --tier "$T" 2>&1 | grep -E "^(VIOLATION|HELD|INCONCLUSIVE|KNOWN|NOTE)" | cut -c1-300
cd /repo && git reset -q --hard && git status --short | grep -v '^??' | head -3
