"""
C02  Every execution ends exactly once and its terminal record never changes.

Monitors: per-execution automaton on the notification topic (one RUNNING, then exactly one terminal status), record
snapshots after every scheduler step (terminal record immutable; stopDate/output/error/cause shape), bounded progress
(every started execution is terminal once the world is quiescent and virtual time has passed its time-out plus the
61 s back-stop), and "nothing happens to a finished world" while the back-stop period passes.
"""
import random, copy
from lsfverif.gen import families as F
from lsfverif.mon import scenario as S, classify as C
from lsfverif.checks import _sched

ID = "C02"
ENGINE = "simworld"
LEVEL = "exploration"
RULE = ("case = (scenario, schedule): scenario from the families sequential / fan-out whose branches succeed / fan-out with exactly one unhandled failure, "
        "1..8 concurrent executions started by raw start event, REST StartExecution, REST StartSyncExecution (EXPRESS) or as a synchronous child; schedule = "
        "canonical, seeded random (timer-vs-delivery weights varied), or exhaustive DFS for small fan-outs. non-trivial = the run had >=2 executions or a fan-out "
        "and >=2 distinct schedules of its scenario were seen; distinct by hash of (scenario, action sequence)")
ASSUMPTIONS = ["families with Catch/Retry on a failing fan-out or several concurrent failures belong to C06 (as the property's quantifier says); a sample of them is run here "
               "under this property's rules, with C06's trace predicates deciding what belongs to the listed sibling finding",
               "execution names are unique per world; simulated broker/clock fidelity (DESIGN.md section 3)"]
FLOORS = {"evaluations": 400, "schedules": 300, "nontrivial": 150, "obs:notifications": 1500, "obs:record_snapshots": 3000, "executions_terminated": 600,
          "terminated_SUCCEEDED": 200, "terminated_FAILED": 100, "via:rest": 20, "via:sync": 10, "via:child": 10, "dfs_runs": 50}
SHARDS = {"quick": 16, "thorough": 16}
TECHNIQUE = "online monitors (notification automaton, record snapshots after every step, bounded-progress) over seeded/DFS schedule exploration in the simulated world"
LEVEL_TEXT = ("The real engine runs generated scenarios under canonical, random and (for small fan-outs) exhaustively enumerated schedules while monitors watch every "
              "status notification and snapshot the execution record after every step; held = no duplicate/missing/second status, no change of a terminal record, no "
              "ill-shaped record and no execution left non-terminal, on every schedule run.")
LEVEL_NOTE = "reach = the schedules actually produced (counted as distinct action sequences); trusts the simulated broker's legal-nondeterminism model"
DESIGN_REF = "DESIGN.md section 6, C02"

RULES = ("N-duplicate-running", "N-running-after-terminal", "N-terminal-without-running", "N-second-terminal", "N-unknown-status",
         "R-shape", "R-terminal-record-changed", "R-express-has-record-or-history")

CHILD = "arn:aws:states:local:0123456789:states:startExecution.sync:2"


def classify(run, v):
    return None


def judge(ctx, run, meta, sched):
    _sched.judge_rules(ctx, run, meta, sched, RULES, classify)
    for arn in getattr(run, "never_terminated", []) or []:
        # the listed finding: a cancelled child that was inside a fan-out (it has join state) is only tidied up, never ended
        mech = "cancelled-child-inside-fan-out-never-ends" if (meta.get("child_inside_fanout") and ":execution:m:" in arn) else None
        ctx.violation("execution-never-terminates", S.witness_of(run, dict(arn=arn, family=meta.get("family"), schedule_name=sched, meta=meta)), mech)
    late = getattr(run, "late_notifications", None)
    if late:
        ctx.violation("notification-long-after-all-executions-ended", S.witness_of(run, dict(late=[n["body"]["detail"]["status"] for n in late], family=meta.get("family"))), None)
    for arn, seq in run.status_seq.items():
        if seq and seq[-1] in ("SUCCEEDED", "FAILED"):
            ctx.count("executions_terminated")
            ctx.count("terminated_" + seq[-1])
    if len(run.status_seq) >= 2 or meta.get("kind"):
        ctx.nontrivial([_sched.scn_key(run.scn), _sched.schedule_hash(run)])
    if ctx.counters["evaluations"] % 211 == 1:
        ctx.sample(dict(family=meta.get("family"), schedule=sched, executions=run.status_seq, steps=run.seen["steps"],
                        machine=run.scn["machines"].get("m", {}).get("asl")))


def with_child(scn, variant="plain"):
    """Wrap: a parent execution launches the scenario's machine synchronously and waits for it.
    variant 'sibling-fails': the launch sits in a Parallel whose other branch fails (unhandled) after 1 s;
    variant 'parent-timeout': the launching Task has TimeoutSeconds 2.  In both the child is then cancelled."""
    scn = copy.deepcopy(scn)
    launch = {"Type": "Task", "Resource": CHILD, "Parameters": {"StateMachineArn": "arn:aws:states:local:0123456789:stateMachine:m", "Input.$": "$", "Name.$": "$.child"},
              "End": True}
    if variant == "parent-timeout":
        launch["TimeoutSeconds"] = 2
    if variant == "sibling-fails":
        asl = {"StartAt": "Par", "States": {"Par": {"Type": "Parallel", "End": True, "Branches": [
            {"StartAt": "Launch", "States": {"Launch": launch}},
            {"StartAt": "Tick", "States": {"Tick": {"Type": "Wait", "Seconds": 1, "Next": "Die"}, "Die": {"Type": "Fail", "Error": "Sibling.Failed", "Cause": "c"}}}]}}}
    else:
        asl = {"StartAt": "Launch", "States": {"Launch": launch}}
    scn["machines"]["parent"] = {"asl": asl, "type": "STANDARD"}
    starts = []
    for s in scn["starts"]:
        starts.append({"machine": "parent", "name": "p-" + s["name"], "input": dict(s["input"], child="c-" + s["name"]), "via": "event"})
    scn["starts"] = starts
    return scn


def run(ctx):
    n_cases = ctx.pick(200, 3000)
    n_random = ctx.pick(3, 12)
    for k in range(n_cases):
        if not ctx.mine(k):
            continue
        rng = ctx.rng("case", k)
        fam = ["sequential", "fanout-none", "fanout-one"][k % 3]
        mode = ["event", "event", "rest", "sync", "child", "mixed"][(k // 3) % 6]
        typ = "EXPRESS" if mode == "sync" or (mode == "event" and rng.random() < 0.15) else "STANDARD"
        via = {"event": ("event",), "rest": ("rest",), "sync": ("sync",), "child": ("event",), "mixed": ("event", "rest", "minimal")}[mode]
        scn, meta = F.scenario(rng, fam, n_exec=rng.randint(1, ctx.pick(4, 8)), via=via, typ=typ)
        if mode == "child":
            variant = ["plain", "sibling-fails", "parent-timeout"][(k // 18) % 3]
            if variant != "plain":
                # make the child slow enough to be caught in flight: it first waits on a slow task
                m = scn["machines"]["m"]["asl"]
                m["States"]["Slow0"] = F.T("slow30", Next=m["StartAt"])
                m["StartAt"] = "Slow0"
            scn = with_child(scn, variant)
            ctx.count("child:" + variant)
        ctx.count("via:" + mode)
        ctx.count("family:" + fam)
        _sched.run_schedules(ctx, scn, meta, judge, n_random, ["c02", k], record_every=1)
    # exhaustive schedules for small fan-outs: Parallel / Map of 2-3 single-task branches, with and without one failure
    small = []
    for kind in ("Parallel", "Map"):
        for n in (2, 3):
            for fail in ("none", "one"):
                small.append((kind, n, fail))
    for j, (kind, n, fail) in enumerate(small):
        if not ctx.mine(j):
            continue
        rng = random.Random(j)
        names = F.Names()
        if kind == "Parallel":
            st = {"Type": "Parallel", "Branches": [F.chain([(names(), F.T("boom" if (fail == "one" and i == 0) else "echo"))]) for i in range(n)]}
        else:
            st = {"Type": "Map", "ItemsPath": "$.items", "ItemProcessor": {"StartAt": "R", "States": {
                "R": {"Type": "Choice", "Choices": [{"Variable": "$.i", "NumericEquals": 0 if fail == "one" else -1, "Next": "B"}], "Default": "G"},
                "G": F.T("echo", End=True), "B": F.T("boom", End=True)}}}
        asl = F.chain([("Fan", st), ("After", F.P())])
        scn = {"machines": {"m": {"asl": asl}}, "funcs": dict(F.FUNCS), "starts": [{"machine": "m", "name": "e0", "input": {"items": F.items(n, depth=0)}}]}
        _sched.run_dfs(ctx, scn, dict(family="dfs-%s-%d-%s" % (kind, n, fail), kind=kind), judge, ctx.pick(120, 4000))
    handled_and_caught_families(ctx)
    cancelled_child_families(ctx)
    crash_families(ctx)


def handled_and_caught_families(ctx):
    """(a) branches that SUCCEED after an error was caught inside them (the branch is busy in its handler while its siblings finish), with the state after the
    join slow enough for a second completion of the join to show; (b) a sample of C06's handled-failure scenarios (the statement quantifies over all machines;
    the exploration of that family is C06's) judged by this property's rules only, with C06's trace predicates deciding which second endings belong to the
    listed sibling finding."""
    from lsfverif.checks import c06
    import random as _r
    from lsfverif.sim.world import make_random
    n_random = ctx.pick(3, 10)
    i = 0
    # (a)
    for kind in ("Parallel", "Map"):
        for n in (2, 3):
            for after in ("slow3", "echo"):
                for variant in range(ctx.pick(2, 6)):
                    i += 1
                    if not ctx.mine(i):
                        continue
                    rng = ctx.rng("caught-inside", kind, n, after, variant)
                    names = F.Names()
                    fast = lambda: F.chain([(names(), F.T(rng.choice(["echo", "wrap"])))])
                    if kind == "Parallel":
                        st = {"Type": "Parallel", "Branches": [c06.sibling_body(rng, names, "caught") if b == 0 else fast() for b in range(n)]}
                        data = {"x": 1}
                    else:
                        first, handler, ok = names(), names(), names()
                        st = {"Type": "Map", "ItemsPath": "$.items", "MaxConcurrency": rng.choice([0, 0, 1, 2]), "ItemProcessor": {"StartAt": "Pick", "States": {
                            "Pick": {"Type": "Choice", "Choices": [{"Variable": "$.i", "NumericEquals": 0, "Next": first}], "Default": ok},
                            first: dict(F.T("inner"), Catch=[{"ErrorEquals": ["Inner.Err"], "ResultPath": "$.caught", "Next": handler}], End=True),
                            handler: dict(F.T("sibslow"), End=True), ok: F.T("echo", End=True)}}}
                        data = {"items": F.items(n + 1, depth=0)}
                    asl = F.chain([("Fan", st), ("After", F.T(after)), ("Done", F.P())])
                    scn = {"machines": {"m": {"asl": asl}}, "funcs": dict(c06.FUNCS), "starts": [{"machine": "m", "name": "e0", "input": data}]}
                    ctx.count("family:caught-inside-a-branch")
                    _sched.run_schedules(ctx, scn, dict(family="caught-inside-a-branch", kind=kind), judge, n_random, ["c02ci", i], record_every=1)
    # (a') one unhandled failure while a sibling Task sits in its own retry interval: it is invoked again after the end and fails again
    for n in (2, 3):
        for variant in range(ctx.pick(2, 5)):
            i += 1
            if not ctx.mine(i):
                continue
            rng = ctx.rng("retrying-sibling", n, variant)
            scn, meta = c06.make(rng, "Parallel", n, {0}, "none", sib_kind="retrying", fail_delay=1)
            ctx.count("family:unhandled-failure-with-retrying-sibling")
            _sched.run_schedules(ctx, scn, dict(family="unhandled-failure-with-retrying-sibling", kind="Parallel"), judge, n_random, ["c02rs", i], record_every=1)
    # (b)
    hook = lambda run: setattr(run, "watch", c06.FailureWatch(run))
    for n in (2, 3):
        for handlers in ("catch", "retry+catch"):
            for sib in ("timed", "slow", "wait", "caught"):
                for recover in ("slowtask", "pass"):
                    i += 1
                    if not ctx.mine(i):
                        continue
                    rng = ctx.rng("handled", n, handlers, sib, recover)
                    scn, meta = c06.make(rng, "Parallel", n, {0}, handlers, sib_kind=sib, fail_delay=rng.choice([None, 1]), recover=recover)
                    meta = dict(meta, family="handled-failure")
                    ctx.count("family:handled-failure")
                    for s in range(n_random + 1):
                        r = _r.Random("c02h-%d-%d" % (i, s))
                        pol = None if s == 0 else (lambda w, r=r: make_random(r, prompt_timer_weight=r.choice([1.0, 4.0, 0.25])))
                        run = S.execute(scn, policy=pol, seed=ctx.seed, hooks=[hook])
                        try:
                            _sched.observe(ctx, run)
                            ctx.distinct("schedules", [_sched.scn_key(scn), _sched.schedule_hash(run)])
                            mech, handled, live = c06.mechanisms(run, meta)
                            _sched.judge_rules(ctx, run, meta, "canonical" if s == 0 else "random%d" % s, ("N-", "R-"),
                                               lambda run_, v: mech(v["step"], v["rule"], v.get("t")))
                            for arn in getattr(run, "never_terminated", []) or []:
                                ctx.violation("execution-never-terminates", S.witness_of(run, dict(arn=arn, family="handled-failure", meta=meta)), mech(None, "never"))
                        finally:
                            S.close(run)


def cancelled_child_families(ctx):
    """A synchronous child is given up by its parent (the launching Task times out, or a sibling branch of the parent fails) while the child is INSIDE a
    Parallel/Map state: the child is an execution like any other and must still end exactly once."""
    W = lambda sec, **kw: dict(Type="Wait", Seconds=sec, **kw)
    children = {
        "parallel": {"StartAt": "P", "States": {"P": {"Type": "Parallel", "Branches": [F.chain([("Ca", W(10)), ("Cb", F.T("echo"))]), F.chain([("Cc", F.T("slow30"))])], "Next": "Cz"},
                                                "Cz": F.T("echo", End=True)}},
        "map": {"StartAt": "M", "States": {"M": {"Type": "Map", "ItemsPath": "$.items", "ItemProcessor": F.chain([("Ca", W(10)), ("Cb", F.T("echo"))]), "Next": "Cz"}, "Cz": F.T("echo", End=True)}},
        "nested": {"StartAt": "M", "States": {"M": {"Type": "Map", "ItemsPath": "$.items", "MaxConcurrency": 1, "ItemProcessor": F.chain([("P", {"Type": "Parallel", "Branches": [
            F.chain([("Ca", W(10))]), F.chain([("Cc", F.T("slow30"))])]})]), "End": True}}},
        "sequential": {"StartAt": "Ca", "States": {"Ca": W(10, Next="Cb"), "Cb": F.T("echo", End=True)}},
    }
    i = 0
    for cname, child in children.items():
        for variant in ("parent-timeout", "sibling-fails"):
            i += 1
            if not ctx.mine(i):
                continue
            scn = {"machines": {"m": {"asl": child, "type": "STANDARD"}}, "funcs": dict(F.FUNCS), "starts": [{"machine": "m", "name": "k", "input": {"items": F.items(2, depth=0)}}]}
            scn = with_child(scn, variant)
            meta = dict(family="cancelled-child", child=cname, variant=variant, child_inside_fanout=cname != "sequential")
            ctx.count("family:cancelled-child"); ctx.count("child:" + variant)
            _sched.run_schedules(ctx, scn, meta, judge, ctx.pick(3, 10), ["c02cc", i], record_every=1)


def crash_families(ctx):
    """The engine dies and is restarted at every point of runs in which a Task with a Retrier launches a synchronous child (the first child fails, the second
    is still running at the crash) or calls a function: whatever the restart does to the pending work (C04 decides whether outcomes are preserved), no
    execution - parent or child - may END twice or have its terminal record changed.  A RUNNING notification repeated after a restart is not judged here."""
    from lsfverif.checks import c04
    child = {"StartAt": "W", "States": {"W": F.T("childwork", End=True)}}
    launch = {"Type": "Task", "Resource": CHILD, "Parameters": {"StateMachineArn": "arn:aws:states:local:0123456789:stateMachine:child", "Input.$": "$"},
              "Retry": [{"ErrorEquals": ["States.ALL"], "IntervalSeconds": 1, "MaxAttempts": 2, "BackoffRate": 1.0}], "End": True}
    plain = dict(F.T("childwork"), Retry=[{"ErrorEquals": ["States.ALL"], "IntervalSeconds": 1, "MaxAttempts": 2, "BackoffRate": 1.0}], End=True)
    funcs = dict(F.FUNCS, childwork=["seq", [["err", "Boom", "first attempt"], ["ok", {"done": 1}, {"latency": 3}]]])
    i = 0
    for name, parent, machines in (("retried-child-launch", {"StartAt": "L", "States": {"L": launch}}, True), ("retried-task", {"StartAt": "L", "States": {"L": plain}}, False)):
        for store in ("json", "redis"):
            ms = {"m": {"asl": parent}}
            if machines:
                ms["child"] = {"asl": child}
            scn = {"machines": ms, "funcs": funcs, "starts": [{"machine": "m", "name": "e", "input": {"x": 1}}], "config": {"store": store} if store == "redis" else {}}
            base = S.execute(scn, seed=ctx.seed)
            n_steps = len(base.world.steps)
            S.close(base)
            for k in range(0, n_steps + 1):
                i += 1
                if not ctx.mine(i):
                    continue
                run = S.execute(scn, seed=ctx.seed, hooks=[c04.crash_hook(k)])
                try:
                    _sched.observe(ctx, run)
                    ctx.count("family:crash-" + name); ctx.count("crash_points")
                    ctx.distinct("schedules", [_sched.scn_key(scn), "crash", k])
                    ctx.nontrivial([name, store, k])
                    meta = dict(family="crash-" + name, crash_after_step=k, store=store)
                    _sched.judge_rules(ctx, run, meta, "crash-%d" % k, ("N-second-terminal", "N-running-after-terminal", "R-terminal-record-changed"), None)
                finally:
                    S.close(run)


def witnesses(ctx):
    pass


def replay(ctx, doc):
    w = doc["witness"]
    run = S.execute(w["scenario"], labels=w.get("schedule"), seed=w.get("seed", 0))
    print("executions:", run.status_seq)
    print("notifications:", [(n["t"], n["body"]["detail"]["executionArn"][-6:], n["body"]["detail"]["status"], n["body"]["detail"].get("error")) for n in run.world.notifications])
    judge(ctx, run, w.get("meta") or {}, "replay")
    S.close(run)
