"""
Generators: JSON documents, reference paths drawn from the document that actually reaches a state
(sample-guided: the reference interpreter is run on a sample input while the machine is being built),
payload templates, well-formed state machines over all eight state types, and task behaviours as data.
"""
import random, copy, json
from lsfverif.ref import asl as R

KEYS = ["a", "b", "c", "k1", "my key", "x-y"]
LEAVES = [None, 0, 1, -2, 1.5, False, True, "", "s", "A", [], {}, "2020-01-01T00:00:00Z"]
ERRS = ["E1", "E2", "Custom.Error", "My Error"]
FN_PREFIX = "arn:aws:rpcmessage:local::function:"


def gen_json(rng, depth, leaves=LEAVES, keys=KEYS):
    r = rng.random()
    if depth <= 0 or r < 0.35:
        return copy.deepcopy(rng.choice(leaves))
    if r < 0.75:
        return {k: gen_json(rng, depth - 1, leaves, keys) for k in rng.sample(keys, rng.randint(1, 3))}
    return [gen_json(rng, depth - 1, leaves, keys) for _ in range(rng.randint(0, 3))]


def path_step(prefix, k, rng):
    if isinstance(k, int):
        return prefix + "[%d]" % k
    if k.isidentifier() and rng.random() < 0.7:
        return prefix + "." + k
    return prefix + "['" + k.replace("\\", "\\\\").replace("'", "\\'") + "']"


def paths_of(doc, rng, prefix="$", out=None, depth=3):
    out = [] if out is None else out
    out.append(prefix)
    if depth > 0:
        if isinstance(doc, dict):
            for k, v in doc.items():
                paths_of(v, rng, path_step(prefix, k, rng), out, depth - 1)
        elif isinstance(doc, list):
            for i, v in enumerate(doc[:3]):
                paths_of(v, rng, path_step(prefix, i, rng), out, depth - 1)
    return out


class Gen(object):
    def __init__(self, rng, max_states=5, allow=("Pass", "Task", "Wait", "Choice", "Parallel", "Map", "Succeed", "Fail"),
                 p_missing_path=0.05, p_catch=0.4, p_retry=0.4, time_base=1_700_000_000):
        self.rng = rng
        self.n = 0
        self.funcs = {}
        self.max_states, self.allow = max_states, allow
        self.p_missing_path, self.p_catch, self.p_retry = p_missing_path, p_catch, p_retry
        self.time_base = time_base
        self.features = set()

    def name(self, prefix="S"):
        self.n += 1
        return "%s%d" % (prefix, self.n)

    def pick_path(self, doc, allow_missing=True):
        if allow_missing and self.rng.random() < self.p_missing_path:
            self.features.add("missing-path")
            return "$.nope"
        return self.rng.choice(paths_of(doc, self.rng))

    def io_fields(self, st, doc, result_capable):
        r = self.rng
        if r.random() < 0.3:
            st["InputPath"] = None if r.random() < 0.15 else self.pick_path(doc)
            self.features.add("InputPath")
        if result_capable and r.random() < 0.5:
            c = r.random()
            st["ResultPath"] = None if c < 0.15 else ("$" if c < 0.3 else "$." + r.choice(["r", "a", "out"]) if c < 0.7
                                                      else "$['r q']" if c < 0.8 else "$.r.deep")
            ip = st.get("InputPath")
            if isinstance(ip, str) and ip not in ("$", "$.nope") and r.random() < 0.5:
                # the result lands inside the very sub-tree InputPath selected (the result may be that sub-tree itself: aliasing hazard)
                st["ResultPath"] = ip + "." + r.choice(["prev", "a", "r"])
                self.features.add("ResultPath-inside-InputPath")
            self.features.add("ResultPath")
        if r.random() < 0.2:
            st["OutputPath"] = None if r.random() < 0.2 else "$"
            self.features.add("OutputPath")

    def template_for(self, doc):
        r = self.rng
        t = {}
        for k in r.sample(["p", "q", "lit"], r.randint(1, 3)):
            c = r.random()
            if c < 0.5:
                t[k + ".$"] = self.pick_path(doc, allow_missing=r.random() < 0.5)
            elif c < 0.6:
                t[k + ".$"] = r.choice(["$$.State.Name", "$$.Execution.Id", "$$.Execution.Input"])
            elif c < 0.8:
                t[k] = {"n": {"m.$": self.pick_path(doc, False)}, "l": [1, "$.notapath"]}
            else:
                t[k] = copy.deepcopy(r.choice(LEAVES))
        self.features.add("template")
        return t

    def task_fn(self):
        r = self.rng
        kind = r.choice(["echo", "wrap", "const", "const", "fail", "flaky"])
        fn = "f%d" % (len(self.funcs) + 1)
        if kind == "fail":
            self.funcs[fn] = ["fail", r.choice(ERRS)]
        elif kind == "flaky":
            self.funcs[fn] = ["flaky", [r.choice(ERRS) for _ in range(r.randint(1, 3))]]
        elif kind == "const":
            self.funcs[fn] = ["const", gen_json(r, 2)]
        else:
            self.funcs[fn] = [kind]
        return fn

    def retry_catch(self, st, nxt, last, simple=False):
        r = self.rng
        if r.random() < self.p_retry:
            st["Retry"] = [{"ErrorEquals": r.sample(ERRS, r.randint(1, 2)), "IntervalSeconds": r.randint(1, 3),
                            "MaxAttempts": r.randint(0, 2), "BackoffRate": r.choice([1.0, 1.5, 2.0])}]
            if r.random() < 0.3 and not simple:
                st["Retry"].append({"ErrorEquals": ["States.ALL"], "IntervalSeconds": 1, "MaxAttempts": 1})
            self.features.add("Retry")
        if r.random() < self.p_catch and not last:
            st["Catch"] = [{"ErrorEquals": ["States.ALL"] if r.random() < 0.5 else r.sample(ERRS, 2), "Next": nxt,
                            **({"ResultPath": r.choice(["$.err", "$.err", None])} if r.random() < 0.7 else {})}]
            self.features.add("Catch")

    def machine(self, sample, depth):
        """returns a (sub)machine dict; `sample` is a representative input document."""
        r = self.rng
        states = {}
        first = cur = self.name()
        doc = copy.deepcopy(sample)
        n = r.randint(1, self.max_states)
        for i in range(n):
            last = i == n - 1
            kinds = [k for k in ["Pass", "Pass", "Task", "Task", "Wait", "Choice"] if k in self.allow]
            if depth > 0:
                kinds += [k for k in ["Parallel", "Map"] if k in self.allow]
            if last:
                kinds += [k for k in ["Succeed", "Fail"] if k in self.allow]
            kind = r.choice(kinds)
            st = {"Type": kind}
            nxt = None if last else self.name()
            if kind == "Choice" and last:
                kind = "Succeed"; st = {"Type": "Succeed"}
            self.features.add(kind)
            if kind == "Pass":
                self.io_fields(st, doc, True)
                if r.random() < 0.5:
                    st["Result"] = gen_json(r, 2)
                if r.random() < 0.3:
                    st["Parameters"] = self.template_for(doc)
            elif kind == "Task":
                self.io_fields(st, doc, True)
                st["Resource"] = FN_PREFIX + self.task_fn()
                if r.random() < 0.25:
                    st["Parameters"] = self.template_for(doc)
                elif r.random() < 0.2:
                    # the "long form" of the same call: the function is named in Parameters, the result comes wrapped in metadata
                    st["Parameters"] = {"FunctionName": st["Resource"], "Payload.$": "$"}
                    st["Resource"] = "arn:aws:states:local::rpcmessage:invoke"
                    self.features.add("long-form-invoke")
                if r.random() < 0.2:
                    st["ResultSelector"] = {"sel.$": "$", "c": 1}
                    self.features.add("ResultSelector")
                self.retry_catch(st, nxt, last)
            elif kind == "Wait":
                c = r.random()
                if c < 0.6:
                    st["Seconds"] = r.randint(1, 5)
                elif c < 0.8:
                    st["Timestamp"] = "2023-11-14T22:13:%02dZ" % r.randint(21, 40)   # just after the virtual epoch
                else:
                    st["Timestamp"] = "2001-01-01T00:00:00Z"                           # in the past
                if r.random() < 0.2:
                    st["InputPath"] = self.pick_path(doc)
            elif kind == "Choice":
                alt = self.name()
                p = self.pick_path(doc, allow_missing=r.random() < 0.3)
                rule = r.choice([{"Variable": p, "IsPresent": True}, {"Variable": p, "NumericGreaterThan": 0},
                                 {"Variable": p, "StringEquals": "s"}, {"Variable": p, "BooleanEquals": True},
                                 {"Not": {"Variable": p, "IsPresent": True}},
                                 {"And": [{"Variable": p, "IsPresent": True}, {"Variable": p, "IsString": True}]}])
                st["Choices"] = [dict(rule, Next=nxt)]
                if r.random() < 0.8:
                    st["Default"] = alt
                    states[alt] = ({"Type": "Pass", "Result": {"took": "default"}, "End": True} if r.random() < 0.5
                                   else {"Type": "Fail", "Error": "Chose.Default", "Cause": "c"})
            elif kind == "Parallel":
                self.io_fields(st, doc, True)
                st["Branches"] = [self.machine(doc, depth - 1) for _ in range(r.randint(1, 3))]
                self.retry_catch(st, nxt, last, simple=True)
            elif kind == "Map":
                arr = [gen_json(r, 1) for _ in range(r.randint(0, 3))]
                st["ItemsPath"] = "$.items"
                if not isinstance(doc, dict):
                    doc = {}
                pre = cur
                cur = self.name()
                if r.random() < 0.3:
                    # the Map works on a sub-document (InputPath) while its result goes back into the RAW input
                    states[pre] = {"Type": "Pass", "Result": {"items": arr, "tag": "job"}, "ResultPath": "$.job", "Next": cur}
                    st["InputPath"] = "$.job"
                    st["ResultPath"] = r.choice(["$.mapped", "$.job.results", "$"])
                    self.features.add("Map-InputPath")
                else:
                    states[pre] = {"Type": "Pass", "Result": arr, "ResultPath": "$.items", "Next": cur}
                doc = dict(doc, items=arr) if isinstance(doc, dict) else doc
                if r.random() < 0.4:
                    st["ItemSelector"] = {"v.$": "$$.Map.Item.Value", "i.$": "$$.Map.Item.Index"}
                    self.features.add("ItemSelector")
                if r.random() < 0.5:
                    st["MaxConcurrency"] = r.randint(0, 3)
                    self.features.add("MaxConcurrency")
                st["ItemProcessor"] = self.machine(arr[0] if arr else {}, depth - 1)
                if r.random() < 0.5 and "ResultPath" not in st:
                    st["ResultPath"] = "$.mapped"
                self.retry_catch(st, nxt, last, simple=True)
            if kind in ("Succeed", "Fail"):
                if kind == "Fail":
                    st["Error"], st["Cause"] = r.choice(ERRS), "because"
                states[cur] = st
                break
            if kind != "Choice":
                if last:
                    st["End"] = True
                else:
                    st["Next"] = nxt
            states[cur] = st
            cur = nxt
            # keep the sample document roughly in step (best effort; mismatches just produce failures)
            if kind != "Choice":
                try:
                    one = dict(st, End=True)
                    one.pop("Next", None)
                    it = R.Interp({"StartAt": "x", "States": {"x": one}}, task_oracle(self.funcs))
                    o = it.run(copy.deepcopy(doc))
                    if o.status == "SUCCEEDED":
                        doc = o.output
                except Exception:
                    pass
        return {"StartAt": first, "States": states}


def task_oracle(funcs, latencies=None):
    """Deterministic task behaviour as data: (function, payload, how many times this (function,payload)
    was seen) -> reference-style result tuple."""
    counts = {}

    def task(fn, payload):
        b = funcs[fn]
        key = (fn, json.dumps(payload, sort_keys=True, default=repr))
        n = counts[key] = counts.get(key, 0) + 1
        if b[0] == "echo":
            return ("ok", payload)
        if b[0] == "wrap":
            return ("ok", {"fn": fn, "in": payload})
        if b[0] == "const":
            return ("ok", b[1])
        if b[0] == "fail":
            return ("err", b[1], "boom")
        if b[0] == "flaky":
            return ("err", b[1][n - 1], "boom") if n <= len(b[1]) else ("ok", {"after": n})
        if b[0] == "silent":
            return ("silent",)
        if b[0] == "delay_by":   # wrap after payload[b[1]] virtual seconds
            return ("ok", {"fn": fn, "in": payload}, {"latency": payload.get(b[1], 0) if isinstance(payload, dict) else 0})
        if b[0] == "fail_if":    # fails when payload[b[1]] % 2 == b[2], echoes otherwise
            v = payload.get(b[1]) if isinstance(payload, dict) else None
            return ("err", "Odd.Item", "boom") if isinstance(v, int) and v % 2 == b[2] else ("ok", payload)
        if b[0] == "slow":       # echo after b[1] virtual seconds
            return ("ok", payload, {"latency": b[1]})
        if b[0] == "seq":        # explicit outcome sequence, last one repeats
            o = b[1][min(n, len(b[1])) - 1]
            return tuple(o)
        raise KeyError(fn)
    task.stateful = {fn for fn, b in funcs.items() if b[0] in ("flaky", "seq")}
    return task


def worker_behaviour(funcs):
    """The same behaviours for the simulated workers of the world."""
    from lsfverif.sim.world import NOREPLY, DELAY
    oracle = task_oracle(funcs)

    def beh(worker, req):
        r = oracle(worker.name, req["payload"])
        lat = 0
        if r and isinstance(r[-1], dict) and "latency" in r[-1]:
            lat = r[-1]["latency"]; r = r[:-1]
        if r[0] == "ok":
            res = r[1]
        elif r[0] == "err":
            res = {"errorType": r[1], "errorMessage": r[2] if len(r) > 2 else ""}
        else:
            return NOREPLY
        return DELAY(lat, res) if lat else res
    return beh


def all_states(asl):
    for name, st in asl.get("States", {}).items():
        yield name, st
        for b in st.get("Branches", []) if isinstance(st, dict) else []:
            yield from all_states(b)
        if isinstance(st, dict):
            for k in ("ItemProcessor", "Iterator"):
                if isinstance(st.get(k), dict):
                    yield from all_states(st[k])
