#!/bin/bash
# Run the thorough tier of the given checks (default: all) on the unchanged tree, evidence to a scratch directory; one summary line per check.
# usage: tools_thorough.sh [seed] [ids...]
seed=${1:-0}; shift
ids=${@:-C10 C12 C13 C14 C15 C16 C17 C18 C19 C20 C01 C02 C03 C05 C06 C07 C08 C09 C11 C04}
cd /verif
for c in $ids; do
  s=$(date +%s)
  out=$(LSF_EVIDENCE_DIR=/tmp/lsf-thorough-ev ./check $c --tier thorough --seed $seed 2>&1)
  rc=$?
  echo "$c seed=$seed exit=$rc wall=$(( $(date +%s) - s ))s :: $(echo "$out" | grep -E 'VIOLATION|INCONCLUSIVE|HELD' | head -3 | tr '\n' ' ' | cut -c1-400)"
done
