"""
Mini harness: the real StateEngine with an in-process FIFO dispatcher (no broker, no clock).
Used where the property quantifies over *inputs/programs* only (C12-C14, C16, C18): thousands of
single-machine executions per second.  Task results come from a function.
"""
import sys, os, json, collections, tempfile
from lsfverif.core import REPO_PY
if REPO_PY not in sys.path:
    sys.path.insert(0, REPO_PY)
os.environ.setdefault("LOG_LEVEL", "CRITICAL")

ARN = "arn:aws:states:local:0123456789:stateMachine:m"


class MiniDispatcher(object):
    def __init__(self, se):
        self.state_engine = se
        se.event_dispatcher = self
        self.reset()

    def reset(self):
        self.q = collections.deque(); self.n = 0; self.unacknowledged_messages = {}
        self.notes = []; self.timers = []; self.acks = []; self.tseq = 0

    def set_timeout(self, cb, delay):
        self.tseq += 1
        self.timers.append((delay, self.tseq, cb))
        return self.tseq

    def clear_timeout(self, t):
        self.timers = [x for x in self.timers if x[1] != t]

    def acknowledge(self, id):
        self.acks.append(id); self.unacknowledged_messages.pop(id, None)

    def publish(self, item, threadsafe=False, use_shared_queue=False):
        self.q.append(json.dumps(item))

    def broadcast(self, subject, message, carrier_properties=None):
        self.notes.append((subject, json.loads(json.dumps(message))))

    def run(self, max_events=5000):
        n = 0
        while (self.q or self.timers) and n < max_events:
            n += 1
            if self.q:
                m = self.q.popleft(); self.n += 1; id = "m%d" % self.n
                self.unacknowledged_messages[id] = m
                self.state_engine.notify(json.loads(m), id)
            else:
                self.timers.sort(key=lambda x: (x[0], x[1]))
                d, s, cb = self.timers.pop(0); cb()
        return n


_engine = None


def engine():
    global _engine
    if _engine is None:
        from asl_workflow_engine.state_engine import StateEngine
        from asl_workflow_engine import store
        tmp = tempfile.mkdtemp(prefix="lsfmini-", dir=os.environ.get("LSF_WORK"))
        se = StateEngine({"state_engine": {"store_url": os.path.join(tmp, "store.json"), "execution_ttl": 500}})
        se.asl_store = store.SimpleStore()
        ed = MiniDispatcher(se)
        _engine = (se, ed, tmp)
    return _engine[0], _engine[1]


def run(asl, data, tasks=None, typ="STANDARD", name="e", raw_event=None):
    """Returns dict(status, output (parsed) , output_raw, error, cause, notes, history, record, acks)."""
    se, ed = engine()
    ed.reset()
    se.executions.clear(); se.execution_history.clear(); se.branch_metadata.clear()
    se.task_dispatcher.pending_requests.clear(); se.task_dispatcher.cancellers.clear()

    def execute_task(resource_arn, parameters, callback, timeout, is_task_timeout, context, event_id, redelivered):
        fn = resource_arn.split(":")[-1]
        r = tasks(fn, parameters) if tasks else parameters
        callback(r)
    se.task_dispatcher.execute_task = execute_task
    se.asl_store[ARN] = {"definition": asl, "name": "m", "type": typ, "stateMachineArn": ARN,
                         "roleArn": "arn:aws:iam::0123456789:role/r"}
    exarn = ARN.replace("stateMachine", "execution") + ":" + name
    ed.publish(raw_event if raw_event is not None else
               {"data": data, "context": {"StateMachine": {"Id": ARN}, "Execution": {"Name": name}}})
    n_events = ed.run()
    terms = [n for s, n in ed.notes if n["detail"]["status"] != "RUNNING"]
    res = dict(status="NONE", output=None, output_raw=None, error=None, cause=None, n_terminal=len(terms), events=n_events,
               notes=ed.notes, history=list(se.execution_history.get(exarn, [])), record=se.executions.get(exarn),
               unacked=dict(ed.unacknowledged_messages))
    if terms:
        d = terms[-1]["detail"]
        res.update(status=d["status"], output_raw=d.get("output"), error=d.get("error"), cause=d.get("cause"))
        if d.get("output") is not None:
            res["output"] = json.loads(d["output"])
    return res
