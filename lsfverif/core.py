"""
Common machinery of every check: sharded execution, counters, three-valued verdicts,
known-finding classification, replay files and evidence files.

A check module (lsfverif/checks/cNN.py) defines

    ID, LEVEL, RULE, ASSUMPTIONS, FLOORS (dict counter -> minimum for a conclusive run)
    SHARDS = {"quick": n, "thorough": n}        (optional)
    def run(ctx)                                 the work of one shard
    def witnesses(ctx)                           re-executes the minimal witness of every listed finding
    def replay(ctx, doc)                         re-executes one replay file and prints the witness

Nothing here knows about the repository.
"""
import sys, os, json, time, hashlib, random, subprocess, tempfile, shutil, importlib, traceback, collections

ROOT = os.path.dirname(os.path.dirname(os.path.abspath(__file__)))
REPO = os.environ.get("LSF_REPO", "/repo")
REPO_PY = os.path.join(REPO, "asl-workflow-engine", "py")
EVIDENCE_DIR = os.environ.get("LSF_EVIDENCE_DIR") or os.path.join(ROOT, "evidence")      # (the override serves tools_matrix.py only)
REPLAY_DIR = os.path.join(EVIDENCE_DIR, "replay")
FINDINGS_FILE = os.path.join(ROOT, "known_findings.json")
NCPU = min(16, os.cpu_count() or 1)


def setup_paths():
    deps = os.path.join(ROOT, ".deps")
    if not os.path.isdir(os.path.join(deps, "icontract")):
        subprocess.run([os.path.join(ROOT, "setup.sh")], stdout=subprocess.DEVNULL, stderr=subprocess.DEVNULL)
    for p in (deps, REPO_PY, ROOT):
        if p not in sys.path:
            sys.path.insert(0, p)
    os.environ.setdefault("LOG_LEVEL", "CRITICAL")


def stable_hash(obj):
    if not isinstance(obj, (str, bytes)):
        obj = json.dumps(obj, sort_keys=True, default=repr)
    if isinstance(obj, str):
        obj = obj.encode("utf-8", "surrogatepass")
    return hashlib.blake2b(obj, digest_size=8).hexdigest()


def jsonable(x, depth=0):
    """Best-effort conversion of witnesses to JSON (bytes, tuples, sets, exceptions)."""
    if depth > 60:
        return repr(x)[:200]
    if isinstance(x, (str, int, float, bool)) or x is None:
        if isinstance(x, float) and (x != x or x in (float("inf"), float("-inf"))):
            return repr(x)
        return x
    if isinstance(x, bytes):
        try:
            return x.decode("utf-8")
        except UnicodeDecodeError:
            return repr(x)
    if isinstance(x, dict):
        return {str(k): jsonable(v, depth + 1) for k, v in x.items()}
    if isinstance(x, (list, tuple, set, frozenset)):
        return [jsonable(v, depth + 1) for v in x]
    return repr(x)[:300]


class Ctx(object):
    """Per-shard context handed to a check's run()."""
    MAX_SAMPLES = 6
    MAX_VIOLATIONS_KEPT = 40

    def __init__(self, check_id, tier, seed, shard=0, nshards=1):
        self.check_id, self.tier, self.seed, self.shard, self.nshards = check_id, tier, seed, shard, nshards
        self.counters = collections.Counter()
        self.sets = collections.defaultdict(set)
        self.samples = []
        self.violations = []           # dicts: kind, mechanism, witness
        self.violation_counts = collections.Counter()   # (kind, mechanism) -> n   (all, not only kept)
        self.witness_results = {}      # finding id -> dict(reproduced, detail)
        self.inconclusive_reasons = []
        self.quick = tier == "quick"

    # -- partitioning / randomness
    def mine(self, i):
        return i % self.nshards == self.shard

    def rng(self, *keys):
        h = hashlib.blake2b(json.dumps([self.seed, self.check_id] + list(keys), default=repr).encode(), digest_size=8).digest()
        return random.Random(int.from_bytes(h, "big"))

    def pick(self, quick, thorough):
        return quick if self.quick else thorough

    # -- observations
    def evaluation(self, n=1):
        self.counters["evaluations"] += n

    def count(self, name, n=1):
        self.counters[name] += n

    def distinct(self, name, key):
        self.sets[name].add(stable_hash(key))

    def nontrivial(self, key):
        self.sets["nontrivial"].add(stable_hash(key))

    def sample(self, obj, force=False):
        if len(self.samples) < self.MAX_SAMPLES or force:
            self.samples.append(jsonable(obj))

    def violation(self, kind, witness, mechanism=None):
        """mechanism: id of the known-finding predicate the witness satisfies (decided by the check's
        classifier code), or None for an unattributed violation."""
        self.violation_counts[(kind, mechanism or "")] += 1
        per = sum(1 for v in self.violations if v["kind"] == kind and v["mechanism"] == mechanism)
        if per < 3 and len(self.violations) < self.MAX_VIOLATIONS_KEPT:
            self.violations.append(dict(kind=kind, mechanism=mechanism, witness=jsonable(witness)))

    def witness(self, finding_id, reproduced, detail=None):
        self.witness_results[finding_id] = dict(reproduced=bool(reproduced), detail=jsonable(detail))

    def inconclusive(self, reason):
        self.inconclusive_reasons.append(reason)

    def dump(self):
        return dict(counters=dict(self.counters), sets={k: sorted(v) for k, v in self.sets.items()},
                    samples=self.samples, violations=self.violations,
                    violation_counts=[[k[0], k[1], n] for k, n in self.violation_counts.items()],
                    witness_results=self.witness_results, inconclusive=self.inconclusive_reasons)


def load_findings():
    with open(FINDINGS_FILE) as f:
        doc = json.load(f)
    return doc


def load_check(check_id):
    return importlib.import_module("lsfverif.checks." + check_id.lower())


def shard_main(check_id, tier, seed, shard, nshards, out):
    setup_paths()
    mod = load_check(check_id)
    ctx = Ctx(check_id, tier, seed, shard, nshards)
    try:
        if shard == 0 and hasattr(mod, "witnesses"):
            mod.witnesses(ctx)
        mod.run(ctx)
    except BaseException as e:   # harness failure: never a verdict about the repository
        ctx.inconclusive("harness exception in shard %d: %s: %s\n%s" % (shard, type(e).__name__, e, traceback.format_exc()[-3000:]))
    with open(out, "w") as f:
        json.dump(ctx.dump(), f)


def run_check(check_id, tier, seed, nshards=None, timeout=None):
    setup_paths()
    t0 = time.time()
    mod = load_check(check_id)
    if nshards is None:
        nshards = getattr(mod, "SHARDS", {}).get(tier, NCPU)
    nshards = max(1, min(nshards, NCPU))
    timeout = timeout or getattr(mod, "TIMEOUT", {}).get(tier, 3600 if tier == "quick" else 6 * 3600)
    work = tempfile.mkdtemp(prefix="lsfverif-%s-" % check_id)
    env = dict(os.environ, PYTHONHASHSEED=os.environ.get("LSF_HASHSEED", "0"), LOG_LEVEL="CRITICAL", LSF_WORK=work)
    procs = []
    try:
        for i in range(nshards):
            out = os.path.join(work, "shard%d.json" % i)
            cmd = [sys.executable, os.path.join(ROOT, "check"), check_id, "--tier", tier, "--seed", str(seed),
                   "--shard", str(i), "--nshards", str(nshards), "--out", out]
            log = open(os.path.join(work, "shard%d.log" % i), "w")
            procs.append((subprocess.Popen(cmd, env=env, stdout=log, stderr=subprocess.STDOUT, cwd=ROOT), out, log))
        merged = Ctx(check_id, tier, seed)
        deadline = time.time() + timeout
        for i, (p, out, log) in enumerate(procs):
            try:
                p.wait(timeout=max(1, deadline - time.time()))
            except subprocess.TimeoutExpired:
                p.kill()
                merged.inconclusive("shard %d: wall-clock watchdog (%ds) fired" % (i, timeout))
                continue
            finally:
                log.close()
            if not os.path.exists(out):
                tail = open(os.path.join(work, "shard%d.log" % i)).read()[-2000:]
                merged.inconclusive("shard %d died (exit %s) without a result: %s" % (i, p.returncode, tail))
                continue
            d = json.load(open(out))
            merged.counters.update(d["counters"])
            for k, v in d["sets"].items():
                merged.sets[k].update(v)
            for s in d["samples"]:
                if len(merged.samples) < Ctx.MAX_SAMPLES:
                    merged.samples.append(s)
            merged.violations.extend(d["violations"])
            for kind, mech, n in d["violation_counts"]:
                merged.violation_counts[(kind, mech)] += n
            merged.witness_results.update(d["witness_results"])
            merged.inconclusive_reasons.extend(d["inconclusive"])
    finally:
        shutil.rmtree(work, ignore_errors=True)
    return finish(mod, merged, time.time() - t0)


def finish(mod, ctx, wall):
    check_id = ctx.check_id
    findings = load_findings()
    listed = {f["id"]: f for f in findings["findings"] if check_id in f["properties"] and f.get("status", "known") == "known"}
    fixed_ids = {f["id"] for f in findings.get("fixed", []) if check_id in f.get("properties", [f.get("property")])}
    known_counts, unlisted = collections.Counter(), []
    for (kind, mech), n in ctx.violation_counts.items():
        if mech and mech in listed:
            known_counts[mech] += n
        else:
            unlisted.append((kind, mech, n))
    lines = []
    # every listed finding: witness status
    for fid, f in sorted(listed.items()):
        w = ctx.witness_results.get(fid)
        reproduced = (w and w["reproduced"]) or known_counts[fid] > 0
        if reproduced:
            lines.append("KNOWN-FINDING: property=%s %s: %s (witness %s; %d matching violations in exploration)" % (
                check_id, fid, f["what"], "reproduced" if w and w["reproduced"] else "not run" if not w else "not reproduced", known_counts[fid]))
        else:
            lines.append("NOTE: listed finding %s for %s was not reproduced on this tree (%s)" % (
                fid, check_id, "witness passed" if w else "no witness run"))
    replay_paths = []
    if unlisted:
        os.makedirs(REPLAY_DIR, exist_ok=True)
        for v in ctx.violations:
            if v["mechanism"] and v["mechanism"] in listed:
                continue
            doc = dict(property=check_id, tier=ctx.tier, seed=ctx.seed, kind=v["kind"], mechanism=v["mechanism"],
                       was_fixed_finding=bool(v["mechanism"] in fixed_ids), witness=v["witness"])
            path = os.path.join(REPLAY_DIR, "%s-%s.json" % (check_id, stable_hash(doc)))
            with open(path, "w") as f:
                json.dump(doc, f, indent=1)
            replay_paths.append((v, path))
    # floors
    floors = dict(getattr(mod, "FLOORS", {}))
    tier_floors = getattr(mod, "FLOORS_" + ctx.tier.upper(), None)
    if tier_floors:
        floors.update(tier_floors)
    for name, minimum in floors.items():
        got = len(ctx.sets[name]) if name in ctx.sets else ctx.counters.get(name, 0)
        if got < minimum:
            ctx.inconclusive("monitor floor not met: %s=%d < %d" % (name, got, minimum))
    n_nontrivial = len(ctx.sets.get("nontrivial", ()))
    coverage = dict(evaluations=int(ctx.counters.get("evaluations", 0)), distinct_nontrivial=n_nontrivial,
                    rule=getattr(mod, "RULE", ""), samples=ctx.samples or ["<none>"],
                    observed={k: int(v) for k, v in sorted(ctx.counters.items())},
                    distinct={k: len(v) for k, v in sorted(ctx.sets.items())},
                    known_findings_matched={k: int(v) for k, v in sorted(known_counts.items())},
                    known_finding_witnesses=ctx.witness_results,
                    unlisted_violations=[dict(kind=k, mechanism=m, count=n) for k, m, n in unlisted],
                    inconclusive=ctx.inconclusive_reasons[:10],
                    nshards=ctx.nshards)
    extra = getattr(mod, "coverage_extra", None)
    if extra:
        coverage.update(extra(ctx))
    ev = dict(property_id=check_id, tier=ctx.tier, seed=int(ctx.seed), level=getattr(mod, "LEVEL", "exploration"),
              coverage=coverage, assumptions=list(getattr(mod, "ASSUMPTIONS", [])), wall_s=round(wall, 2),
              violations=int(sum(n for _, _, n in unlisted)))
    os.makedirs(EVIDENCE_DIR, exist_ok=True)
    with open(os.path.join(EVIDENCE_DIR, check_id + ".json"), "w") as f:
        json.dump(ev, f, indent=1, sort_keys=True)
    for l in lines:
        print(l)
    print("%s tier=%s seed=%d evaluations=%d distinct_nontrivial=%d wall=%.1fs observed=%s" % (
        check_id, ctx.tier, ctx.seed, coverage["evaluations"], n_nontrivial, wall,
        json.dumps({k: v for k, v in coverage["observed"].items() if k != "evaluations"})[:1500]))
    if unlisted:
        seen = set()
        for v, path in replay_paths:
            key = (v["kind"], v["mechanism"])
            if key in seen:
                continue
            seen.add(key)
            print("VIOLATION property=%s replay=%s kind=%s%s" % (check_id, path, v["kind"],
                  (" mechanism=%s (not a listed finding%s)" % (v["mechanism"], "; recorded as FIXED" if v["mechanism"] in fixed_ids else "")) if v["mechanism"] else ""))
        if not replay_paths:
            print("VIOLATION property=%s replay=%s" % (check_id, "<none kept>"))
        return 1
    if ctx.inconclusive_reasons:
        for r in ctx.inconclusive_reasons[:5]:
            print("INCONCLUSIVE property=%s reason=%s" % (check_id, r.replace("\n", " | ")[:1500]))
        return 2
    print("HELD property=%s on everything explored" % check_id)
    return 0


def main(argv):
    import argparse
    ap = argparse.ArgumentParser()
    if argv and argv[0] == "--manifest":
        from lsfverif.manifest_gen import generate
        m = generate()
        print("MANIFEST.json: %d checks, %d not_applicable" % (len(m["checks"]), len(m["not_applicable"])))
        return 0
    ap.add_argument("check_id")
    ap.add_argument("--tier", default=os.environ.get("VERIF_TIER", "quick"), choices=["quick", "thorough"])
    ap.add_argument("--seed", type=int, default=int(os.environ.get("VERIF_SEED", "0") or 0))
    ap.add_argument("--shard", type=int)
    ap.add_argument("--nshards", type=int)
    ap.add_argument("--out")
    ap.add_argument("--replay")
    a = ap.parse_args(argv)
    cid = a.check_id.upper()
    if a.replay:
        setup_paths()
        mod = load_check(cid)
        doc = json.load(open(a.replay))
        ctx = Ctx(cid, doc.get("tier", "quick"), doc.get("seed", 0))
        mod.replay(ctx, doc)
        for v in ctx.violations:
            print("REPLAY-VIOLATION kind=%s mechanism=%s" % (v["kind"], v["mechanism"]))
            print(json.dumps(v["witness"], indent=1)[:6000])
        print("replay: %d violation(s)" % sum(ctx.violation_counts.values()))
        return 1 if ctx.violation_counts else 0
    if a.shard is not None:
        shard_main(cid, a.tier, a.seed, a.shard, a.nshards, a.out)
        return 0
    return run_check(cid, a.tier, a.seed, a.nshards)
