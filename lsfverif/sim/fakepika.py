"""
Simulated AMQP 0.9.1 broker + fake `pika` client.
Nothing is delivered spontaneously: the harness scheduler decides every delivery,
timer firing and return.  Every client->broker operation is appended to broker.oplog.
"""
import sys, types, collections, itertools, urllib.parse, asyncio


class EngineCrash(BaseException):
    """Raised from inside a broker operation to emulate the process dying there."""


# --------------------------------------------------------------------------- exceptions
class AMQPError(Exception): pass
class AMQPConnectionError(AMQPError): pass
class IncompatibleProtocolError(AMQPConnectionError): pass
class ConnectionClosedByBroker(AMQPConnectionError): pass
class AMQPChannelError(AMQPError): pass
class ChannelClosedByBroker(AMQPChannelError):
    def __init__(self, reply_code, reply_text):
        super().__init__(reply_code, reply_text)
        self.reply_code = reply_code
        self.reply_text = reply_text
class ChannelWrongStateError(AMQPChannelError): pass
class NackError(AMQPError): pass
class UnroutableError(AMQPError): pass


# --------------------------------------------------------------------------- spec
class BasicProperties(object):
    FIELDS = ("content_type", "content_encoding", "headers", "delivery_mode", "priority",
              "correlation_id", "reply_to", "expiration", "message_id", "timestamp",
              "type", "user_id", "app_id", "cluster_id")
    def __init__(self, **kw):
        for f in self.FIELDS:
            setattr(self, f, kw.pop(f, None))
        if kw:
            raise TypeError("unexpected BasicProperties fields %r" % list(kw))
    def as_dict(self):
        return {f: getattr(self, f) for f in self.FIELDS}


class Basic(object):
    class Ack(object):
        def __init__(self, delivery_tag=0, multiple=False):
            self.delivery_tag, self.multiple = delivery_tag, multiple
    class Nack(object):
        def __init__(self, delivery_tag=0, multiple=False):
            self.delivery_tag, self.multiple = delivery_tag, multiple
    class Deliver(object):
        def __init__(self, consumer_tag, delivery_tag, redelivered, exchange, routing_key):
            self.consumer_tag, self.delivery_tag, self.redelivered = consumer_tag, delivery_tag, redelivered
            self.exchange, self.routing_key = exchange, routing_key
    class Return(object):
        def __init__(self, reply_code, reply_text, exchange, routing_key):
            self.reply_code, self.reply_text, self.exchange, self.routing_key = reply_code, reply_text, exchange, routing_key


class Frame(object):
    def __init__(self, method):
        self.method = method
class _QueueDeclareOk(object):
    def __init__(self, queue, message_count, consumer_count):
        self.queue, self.message_count, self.consumer_count = queue, message_count, consumer_count
class _Ok(object): pass


# --------------------------------------------------------------------------- broker
class QMsg(object):
    __slots__ = ("seq", "exchange", "routing_key", "body", "props", "redelivered", "published_at", "pub_step")
    def __init__(self, seq, exchange, routing_key, body, props, published_at, pub_step):
        self.seq, self.exchange, self.routing_key, self.body, self.props = seq, exchange, routing_key, body, props
        self.redelivered = False
        self.published_at = published_at
        self.pub_step = pub_step


class Queue(object):
    def __init__(self, name, durable, exclusive, auto_delete, arguments):
        self.name, self.durable, self.exclusive, self.auto_delete, self.arguments = name, durable, exclusive, auto_delete, arguments
        self.messages = collections.deque()
        self.consumers = []   # ConsumerRec


class ConsumerRec(object):
    def __init__(self, tag, channel, queue, callback, auto_ack, exclusive, arguments):
        self.tag, self.channel, self.queue, self.callback = tag, channel, queue, callback
        self.auto_ack, self.exclusive, self.arguments = auto_ack, exclusive, arguments
        self.prefetch = channel.prefetch      # RabbitMQ: per-consumer prefetch is fixed when the consumer starts

    def in_flight(self):
        return sum(1 for t, ct in self.channel.unacked_consumer.items() if ct == self.tag and t in self.channel.unacked)


class Broker(object):
    def __init__(self, clock):
        self.clock = clock
        self.exchanges = {"": "direct", "amq.topic": "topic", "amq.direct": "direct", "amq.match": "headers", "amq.fanout": "fanout"}
        self.bindings = []          # (exchange, queue, key, arguments)
        self.queues = {}
        self.oplog = []             # every client->broker operation, in order
        self.taps = {}              # exchange -> list of callbacks(routing_key, body, props)
        self.seq = itertools.count(1)      # one world-wide counter: messages, timers, worker requests
        self.returns = collections.deque()   # pending Basic.Return (channel, method, props, body)
        self.connections = []
        self.step = 0               # current scheduler step id (set by the harness)
        self.failpoint = None       # callable(op_record) -> may raise EngineCrash
        self.hooks = []             # callables(op_record), run after the operation took effect
        self.anon = itertools.count(1)

    def log(self, conn, op, **kw):
        rec = dict(n=len(self.oplog), step=self.step, t=self.clock.now, conn=conn.name if conn else None, op=op, **kw)
        self.oplog.append(rec)
        if op in self.PRE_HOOK_OPS:
            self.post(rec)
        return rec

    PRE_HOOK_OPS = ("deliver", "expired", "connection_open", "channel_open", "channel_closed_by_broker")

    def post(self, rec):
        """Run the hooks for an operation record *after* the operation took effect."""
        for h in self.hooks:
            h(rec)
        if self.failpoint:
            self.failpoint(rec)

    # routing -----------------------------------------------------------
    def route(self, exchange, routing_key, props):
        if exchange == "":
            return [routing_key] if routing_key in self.queues else []
        etype = self.exchanges[exchange]
        out = []
        for (ex, q, key, args) in self.bindings:
            if ex != exchange or q not in self.queues:
                continue
            if etype == "fanout" or (etype == "direct" and key == routing_key) or \
               (etype == "topic" and topic_match(key, routing_key)) or \
               (etype == "headers" and headers_match(args, props.headers or {})):
                if q not in out:
                    out.append(q)
        return out

    def publish(self, channel, exchange, routing_key, body, props, mandatory):
        if isinstance(body, str):
            body = body.encode("utf-8")
        if exchange not in self.exchanges:
            channel._closed_by_broker(404, "NOT_FOUND - no exchange '%s'" % exchange)
            return None
        for cb in self.taps.get(exchange, []):
            cb(routing_key, body, props)
        targets = self.route(exchange, routing_key, props)
        if not targets and mandatory:
            self.returns.append((channel, Basic.Return(312, "NO_ROUTE", exchange, routing_key), props, body))
        for q in targets:
            self.queues[q].messages.append(QMsg(next(self.seq), exchange, routing_key, body, props, self.clock.now, self.step))
        return targets

    # harness-facing -------------------------------------------------------
    def deliverable(self):
        """[(queue, consumer)] for which a delivery could happen now."""
        out = []
        for q in self.queues.values():
            if q.messages and q.consumers:
                for c in q.consumers:
                    if c.channel.is_open and (c.prefetch == 0 or c.in_flight() < c.prefetch):
                        out.append((q, c))
        return out

    def deliver(self, q, c):
        m = q.messages.popleft()
        exp = m.props.expiration
        if exp is not None and int(exp) > 0 and (self.clock.now - m.published_at) * 1000 > int(exp):
            self.log(None, "expired", queue=q.name, seq=m.seq, message_id=m.props.message_id, correlation_id=m.props.correlation_id)
            return None
        ch = c.channel
        tag = next(ch.tags)
        if not c.auto_ack:
            ch.unacked[tag] = (q.name, m)
            ch.unacked_consumer[tag] = c.tag
        self.log(ch.connection, "deliver", queue=q.name, seq=m.seq, tag=tag, consumer=c.tag,
                 redelivered=m.redelivered, message_id=m.props.message_id, correlation_id=m.props.correlation_id)
        c.callback(ch, Basic.Deliver(c.tag, tag, m.redelivered, m.exchange, m.routing_key), m.props, m.body)
        return m

    def drop_connection(self, conn):
        """Process death: requeue unacked at the head (original order), mark redelivered, remove consumers."""
        for ch in conn.channels:
            ch.is_open = False
            for tag in sorted(ch.unacked, reverse=True):
                qn, m = ch.unacked[tag]
                m.redelivered = True
                if qn in self.queues:
                    self.queues[qn].messages.appendleft(m)
            ch.unacked.clear()
        for q in list(self.queues.values()):
            q.consumers = [c for c in q.consumers if c.channel.connection is not conn]
            if (q.exclusive and getattr(q, "owner", None) is conn) or (q.auto_delete and not q.consumers and getattr(q, "had_consumer", False)):
                del self.queues[q.name]
        conn.is_open = False
        if conn in self.connections:
            self.connections.remove(conn)


def topic_match(pattern, key):
    p, k = pattern.split("."), key.split(".")
    def m(i, j):
        if i == len(p):
            return j == len(k)
        if p[i] == "#":
            return any(m(i + 1, jj) for jj in range(j, len(k) + 1))
        if j == len(k):
            return False
        return (p[i] == "*" or p[i] == k[j]) and m(i + 1, j + 1)
    return m(0, 0)


def headers_match(args, headers):
    args = dict(args or {})
    mode = args.pop("x-match", "all")
    tests = [headers.get(k) == v for k, v in args.items()]
    return all(tests) if mode == "all" else any(tests)


# --------------------------------------------------------------------------- client: shared channel core
class _Callbacks(object):
    def __init__(self, channel):
        self.channel = channel
    def remove(self, prefix, key, callback_value=None, arguments=None):
        if key == "_on_channel_close" and callback_value in self.channel._on_close:
            self.channel._on_close.remove(callback_value)
            return True
        return False


class Channel(object):
    """pika.channel.Channel (callback style)."""
    def __init__(self, connection, number):
        self.connection = connection
        self.broker = connection.broker
        self.channel_number = number
        self.is_open = True
        self.is_closed = False
        self.prefetch = 0
        self.unacked = {}
        self.unacked_consumer = {}
        self.tags = itertools.count(1)
        self.ctags = itertools.count(1)
        self._on_close = []
        self._on_return = []
        self.callbacks = _Callbacks(self)
        self.confirm = None

    # plumbing
    def _later(self, cb, *a):
        if cb is not None:
            self.connection._soon(lambda: cb(*a))

    def _closed_by_broker(self, code, text):
        self.is_open = False
        self.is_closed = True
        self.broker.log(self.connection, "channel_closed_by_broker", code=code, text=text, channel=self.channel_number)
        err = ChannelClosedByBroker(code, text)
        for cb in list(self._on_close):
            self.connection._soon(lambda cb=cb: cb(self, err))

    def _check_open(self):
        if not self.is_open:
            raise ChannelWrongStateError("Channel is closed.")

    def add_on_close_callback(self, callback):
        self._on_close.append(callback)

    def add_on_return_callback(self, callback):
        self._on_return.append(callback)

    def close(self, reply_code=0, reply_text="Normal shutdown"):
        self.is_open = False
        self.is_closed = True

    # declarations
    def exchange_declare(self, exchange, exchange_type="direct", passive=False, durable=False,
                         auto_delete=False, internal=False, arguments=None, callback=None):
        self._check_open()
        rec = self.broker.log(self.connection, "exchange_declare", exchange=exchange, type=exchange_type, passive=passive,
                              durable=durable, auto_delete=auto_delete, arguments=arguments, channel=self.channel_number)
        self.broker.post(rec)
        if passive:
            if exchange not in self.broker.exchanges:
                return self._closed_by_broker(404, "NOT_FOUND - no exchange '%s' in vhost '/'" % exchange)
        else:
            if exchange in self.broker.exchanges and self.broker.exchanges[exchange] != exchange_type:
                return self._closed_by_broker(406, "PRECONDITION_FAILED - inequivalent arg 'type'")
            self.broker.exchanges[exchange] = exchange_type
        self._later(callback, Frame(_Ok()))

    def queue_declare(self, queue, passive=False, durable=False, exclusive=False, auto_delete=False,
                      arguments=None, callback=None):
        self._check_open()
        if queue == "":
            queue = "amq.gen-%d" % next(self.broker.anon)
        rec = self.broker.log(self.connection, "queue_declare", queue=queue, passive=passive, durable=durable,
                              exclusive=exclusive, auto_delete=auto_delete, arguments=arguments, channel=self.channel_number)
        self.broker.post(rec)
        q = self.broker.queues.get(queue)
        if passive:
            if q is None:
                return self._closed_by_broker(404, "NOT_FOUND - no queue '%s'" % queue)
        elif q is None:
            q = self.broker.queues[queue] = Queue(queue, durable, exclusive, auto_delete, arguments)
            q.owner = self.connection if exclusive else None
        else:
            if (q.durable, q.exclusive, q.auto_delete, q.arguments or None) != (durable, exclusive, auto_delete, arguments or None):
                return self._closed_by_broker(406, "PRECONDITION_FAILED - inequivalent arg for queue '%s'" % queue)
        self.last_declared_queue = queue
        self._later(callback, Frame(_QueueDeclareOk(queue, len(q.messages), len(q.consumers))))

    def queue_bind(self, queue, exchange, routing_key=None, arguments=None, callback=None):
        self._check_open()
        if queue == "" and getattr(self, "last_declared_queue", None):
            queue = self.last_declared_queue        # AMQP 0.9.1: empty name = the queue last declared on this channel
        self.broker.post(self.broker.log(self.connection, "queue_bind", queue=queue, exchange=exchange, key=routing_key, arguments=arguments))
        if queue not in self.broker.queues:
            return self._closed_by_broker(404, "NOT_FOUND - no queue '%s'" % queue)
        if exchange not in self.broker.exchanges:
            return self._closed_by_broker(404, "NOT_FOUND - no exchange '%s'" % exchange)
        b = (exchange, queue, routing_key if routing_key is not None else "", arguments)
        if b not in self.broker.bindings:
            self.broker.bindings.append(b)
        self._later(callback, Frame(_Ok()))

    def basic_qos(self, prefetch_size=0, prefetch_count=0, global_qos=False, callback=None):
        self._check_open()
        self.prefetch = prefetch_count
        self.broker.post(self.broker.log(self.connection, "basic_qos", prefetch=prefetch_count, channel=self.channel_number))
        self._later(callback, Frame(_Ok()))

    def basic_consume(self, queue, on_message_callback, auto_ack=False, exclusive=False,
                      consumer_tag=None, arguments=None, callback=None):
        self._check_open()
        tag = consumer_tag or "ctag%d.%d" % (self.channel_number, next(self.ctags))
        self.broker.post(self.broker.log(self.connection, "basic_consume", queue=queue, exclusive=exclusive, auto_ack=auto_ack,
                                         arguments=arguments, consumer=tag, prefetch=self.prefetch, channel=self.channel_number))
        q = self.broker.queues.get(queue)
        if q is None:
            return self._closed_by_broker(404, "NOT_FOUND - no queue '%s'" % queue)
        if (exclusive and q.consumers) or any(c.exclusive for c in q.consumers):
            return self._closed_by_broker(403, "ACCESS_REFUSED - queue '%s' in exclusive use" % queue)
        q.consumers.append(ConsumerRec(tag, self, q, on_message_callback, auto_ack, exclusive, arguments))
        q.had_consumer = True
        self._later(callback, Frame(_Ok()))
        return tag

    def basic_publish(self, exchange, routing_key, body, properties=None, mandatory=False):
        self._check_open()
        properties = properties or BasicProperties()
        rec = self.broker.log(self.connection, "basic_publish", exchange=exchange, routing_key=routing_key,
                              mandatory=mandatory, props=properties.as_dict(), body=body, channel=self.channel_number)
        rec["routed"] = self.broker.publish(self, exchange, routing_key, body, properties, mandatory)
        self.broker.post(rec)

    def basic_ack(self, delivery_tag=0, multiple=False):
        self._check_open()
        known = delivery_tag in self.unacked
        rec = self.broker.log(self.connection, "basic_ack", tag=delivery_tag, multiple=multiple, known=known,
                              channel=self.channel_number,
                              queue=(self.unacked[delivery_tag][0] if known else None),
                              seq=(self.unacked[delivery_tag][1].seq if known else None),
                              message_id=(self.unacked[delivery_tag][1].props.message_id if known else None),
                              correlation_id=(self.unacked[delivery_tag][1].props.correlation_id if known else None))
        if multiple:
            gone = [t for t in self.unacked if delivery_tag == 0 or t <= delivery_tag]
            rec["acked_seqs"] = [self.unacked[t][1].seq for t in gone]
            for t in gone:
                del self.unacked[t]
        elif known:
            rec["acked_seqs"] = [self.unacked[delivery_tag][1].seq]
            del self.unacked[delivery_tag]
        else:
            rec["acked_seqs"] = []
            self._closed_by_broker(406, "PRECONDITION_FAILED - unknown delivery tag %d" % delivery_tag)
        self.broker.post(rec)

    def basic_recover(self, requeue=False, callback=None):
        self._check_open()
        self.broker.post(self.broker.log(self.connection, "basic_recover", requeue=requeue))

    def confirm_delivery(self, ack_nack_callback=None, callback=None):
        self.confirm = ack_nack_callback


class _Timer(object):
    __slots__ = ("due", "cb", "seq", "cancelled", "armed_step", "conn", "name")
    def __init__(self, due, cb, seq, armed_step, conn):
        self.due, self.cb, self.seq, self.cancelled, self.armed_step, self.conn = due, cb, seq, False, armed_step, conn


class _ConnBase(object):
    def __init__(self, parameters):
        self.params = parameters
        self.broker = parameters.broker
        self.name = getattr(self.broker, "next_conn_name", None) or "conn%d" % next(_conn_ids)
        self.broker.next_conn_name = None
        self.is_open = True
        self.is_closed = False
        self.channels = []
        self.timers = []
        self.tseq = itertools.count(1)
        self._on_close = []
        self.broker.connections.append(self)
        self.broker.log(self, "connection_open")

    def _call_later(self, delay, callback):
        t = _Timer(self.broker.clock.now + max(0.0, delay), callback, next(self.broker.seq), self.broker.step, self)
        self.timers.append(t)
        return t

    def _remove_timeout(self, t):
        if t is not None:
            t.cancelled = True
            if t in self.timers:
                self.timers.remove(t)


_conn_ids = itertools.count(1)


class AsyncioConnection(_ConnBase):
    def __init__(self, parameters=None, on_open_callback=None, on_open_error_callback=None,
                 on_close_callback=None, custom_ioloop=None, internal_connection_workflow=True):
        super().__init__(parameters)
        self.loop = asyncio.get_event_loop()
        self._open_error = []
        if on_open_callback:
            self._soon(lambda: on_open_callback(self))

    def _soon(self, fn):
        self.loop.call_soon(fn)

    def add_on_open_error_callback(self, cb):
        self._open_error.append(cb)

    def add_on_close_callback(self, cb):
        self._on_close.append(cb)

    def channel(self, channel_number=None, on_open_callback=None):
        ch = Channel(self, len(self.channels) + 1)
        self.channels.append(ch)
        self.broker.log(self, "channel_open", channel=ch.channel_number)
        if on_open_callback:
            self._soon(lambda: on_open_callback(ch))
        return ch

    def close(self, reply_code=200, reply_text="Normal shutdown"):
        self.broker.drop_connection(self)

    _adapter_call_later = _ConnBase._call_later
    _adapter_remove_timeout = _ConnBase._remove_timeout

    def _adapter_add_callback_threadsafe(self, callback):
        # In the simulation everything runs on one thread; run inline so that a REST call's
        # publish is visible as soon as the call returns.
        callback()


# --------------------------------------------------------------------------- blocking flavour
class BlockingChannel(object):
    def __init__(self, impl, connection):
        self._impl = impl
        self.connection = connection
        impl._soon_inline = True

    def __getattr__(self, name):
        return getattr(self._impl, name)

    def _sync(self, fn, *a, **kw):
        box = []
        errs = []
        def on_close(ch, err):
            errs.append(err)
        self._impl.add_on_close_callback(on_close)
        fn(*a, callback=box.append, **kw)
        self.connection._drain()
        if on_close in self._impl._on_close:
            self._impl._on_close.remove(on_close)
        if errs:
            raise errs[0]
        return box[0] if box else None

    def exchange_declare(self, *a, **kw): return self._sync(self._impl.exchange_declare, *a, **kw)
    def queue_declare(self, *a, **kw): return self._sync(self._impl.queue_declare, *a, **kw)
    def queue_bind(self, *a, **kw): return self._sync(self._impl.queue_bind, *a, **kw)
    def basic_qos(self, *a, **kw): return self._sync(self._impl.basic_qos, *a, **kw)
    def basic_consume(self, queue, on_message_callback, auto_ack=False, exclusive=False, consumer_tag=None, arguments=None):
        bc = self
        def cb(ch, method, props, body):
            on_message_callback(bc, method, props, body)
        return self._sync(self._impl.basic_consume, queue, cb, auto_ack=auto_ack, exclusive=exclusive,
                          consumer_tag=consumer_tag, arguments=arguments)
    def confirm_delivery(self): self._impl.confirm = True
    def start_consuming(self):
        self.connection._start_consuming(self)
    def close(self): self._impl.close()
    @property
    def is_open(self): return self._impl.is_open


class BlockingConnection(_ConnBase):
    def __init__(self, parameters=None):
        super().__init__(parameters)
        self._pending = collections.deque()
        self.consume_hook = None   # set by the harness: callable(connection) run inside start_consuming

    def _soon(self, fn):
        self._pending.append(fn)

    def _drain(self):
        while self._pending:
            self._pending.popleft()()

    def channel(self, channel_number=None):
        impl = Channel(self, len(self.channels) + 1)
        self.channels.append(impl)
        self.broker.log(self, "channel_open", channel=impl.channel_number)
        return BlockingChannel(impl, self)

    def call_later(self, delay, callback): return self._call_later(delay, callback)
    def remove_timeout(self, t): return self._remove_timeout(t)
    def add_callback_threadsafe(self, callback): callback()
    def close(self): self.broker.drop_connection(self)
    def _start_consuming(self, bch):
        if self.consume_hook:
            self.consume_hook(self)


# --------------------------------------------------------------------------- parameters
class URLParameters(object):
    brokers = {}   # host -> Broker, registered by the harness
    def __init__(self, url):
        p = urllib.parse.urlparse(url)
        self.host, self.port = p.hostname, p.port or 5672
        q = dict(urllib.parse.parse_qsl(p.query))
        self.connection_attempts = int(q.get("connection_attempts", 1))
        self.retry_delay = float(q.get("retry_delay", 2.0))
        self.heartbeat = q.get("heartbeat")
        if self.host not in URLParameters.brokers:
            raise AMQPConnectionError("no simulated broker registered for host %r" % self.host)
        self.broker = URLParameters.brokers[self.host]


def install():
    pika = types.ModuleType("pika")
    pika.__path__ = []
    exc = types.ModuleType("pika.exceptions")
    for k, v in list(globals().items()):
        if isinstance(v, type) and issubclass(v, Exception):
            setattr(exc, k, v)
    spec = types.ModuleType("pika.spec")
    spec.Basic, spec.BasicProperties = Basic, BasicProperties
    chan = types.ModuleType("pika.channel")
    chan.Channel = Channel
    compat = types.ModuleType("pika.compat")
    compat.urlparse = urllib.parse.urlparse
    adapters = types.ModuleType("pika.adapters")
    adapters.__path__ = []
    aio = types.ModuleType("pika.adapters.asyncio_connection")
    aio.AsyncioConnection = AsyncioConnection
    adapters.asyncio_connection = aio
    pika.exceptions, pika.spec, pika.channel, pika.compat, pika.adapters = exc, spec, chan, compat, adapters
    pika.BasicProperties, pika.URLParameters, pika.BlockingConnection = BasicProperties, URLParameters, BlockingConnection
    for name, mod in [("pika", pika), ("pika.exceptions", exc), ("pika.spec", spec), ("pika.channel", chan),
                      ("pika.compat", compat), ("pika.adapters", adapters), ("pika.adapters.asyncio_connection", aio)]:
        sys.modules[name] = mod
    return pika
