"""
C11  All observability surfaces tell the same story about an execution.

Monitors: after every scheduler step the execution record is compared with the most recent status notification; every
notification is checked for subject '<stateMachineArn>.<status>', CloudWatch event shape, millisecond start/stop dates and
exactly-once publication; the stored record must keep epoch seconds after publishing; at the end of every run DescribeExecution,
ListExecutions and GetExecutionHistory are read through the real REST handler of EVERY engine instance and compared with the
notification stream (status, input, output or error) and with each other.
"""
import json, random
from lsfverif.gen import families as F
from lsfverif.mon import scenario as S, classify as C
from lsfverif.mon.monitors import TERMINAL
from lsfverif.checks import _sched

ID = "C11"
ENGINE = "simworld"
LEVEL = "exploration"
RULE = ("case = (scenario, configuration, schedule): the C02 families x {JSON-file store, simulated Redis store} x {1, 2 engine instances sharing the store} x "
        "{STANDARD, EXPRESS} under canonical and seeded random schedules; every step compares record and last notification, every notification is checked for "
        "subject/shape/ms, every instance's REST views are compared at the end. non-trivial = >=2 status changes observed on >=2 surfaces; distinct by hash of "
        "(scenario, configuration, action sequence)")
ASSUMPTIONS = ["the Redis store is the simulated Redis/pottery (DESIGN.md section 3): what is decided is store.py's logic, not Redis itself",
               "after an engine crash a duplicated RUNNING notification is not judged here (C04)"]
FLOORS = {"evaluations": 300, "obs:notifications": 1200, "obs:record_snapshots": 2500, "rest_views_compared": 600, "config:redis-2": 30, "config:redis-1": 30,
          "config:json-1": 60, "express_runs": 20, "nontrivial": 200}
SHARDS = {"quick": 16, "thorough": 16}
TECHNIQUE = "online monitors on the notification topic and record snapshots + REST read-back through every instance at quiescence"
LEVEL_TEXT = ("Every status notification and every per-step record snapshot of every run is cross-checked, and the REST views of every instance sharing the store "
              "are compared with the notification stream at the end, over both store kinds and both machine types. Held = the surfaces never disagreed.")
LEVEL_NOTE = "trusts the simulated Redis/pottery and broker; the REST layer is driven through the Quart test client (no sockets)"
DESIGN_REF = "DESIGN.md section 6, C11"

RULES = ("S-", "N-subject", "N-shape", "N-detail", "N-startdate", "N-stopdate", "N-duplicate-running", "N-second-terminal", "N-running-after-terminal",
         "R-startdate-left-in-ms", "R-stopdate-left-in-ms", "R-express-has-record-or-history", "H-terminal-event-disagrees-with-record", "H-terminal-record-without-terminal-event")


def classify(run, v):
    return None


def last_detail(run, arn):
    ns = [n for n in run.world.notifications if n["body"]["detail"]["executionArn"] == arn]
    return ns[-1]["body"]["detail"] if ns else None


def judge(ctx, run, meta, sched):
    _sched.judge_rules(ctx, run, meta, sched, RULES, classify)
    w = run.world
    express = set(run.notes.express)
    for arn in list(run.execs) + [a for a in run.notes.status if a not in run.execs]:        # (children launched by the executions too)
        d = last_detail(run, arn)
        if d is None:
            continue
        views = {}
        for iid in w.engines:
            code, rec = w.api("DescribeExecution", {"executionArn": arn}, iid=iid)
            sm = arn.replace(":execution:", ":stateMachine:").rsplit(":", 1)[0]
            code2, lst = w.api("ListExecutions", {"stateMachineArn": sm}, iid=iid)
            code3, hist = w.api("GetExecutionHistory", {"executionArn": arn}, iid=iid)
            ctx.count("rest_views_compared")
            if arn in express:
                if code == 200 or (code3 == 200 and hist.get("events")) or (code2 == 200 and any(e["executionArn"] == arn for e in lst.get("executions", []))):
                    ctx.violation("express-execution-visible-through-api", S.witness_of(run, dict(arn=arn, iid=iid)), None)
                continue
            if code != 200:
                ctx.violation("DescribeExecution-missing-for-notified-execution", S.witness_of(run, dict(arn=arn, iid=iid, code=code, body=rec)), None)
                continue
            views[iid] = rec
            # record vs notification (the notification carries ms dates, the record seconds)
            for k in ("status", "input", "output", "name", "stateMachineArn", "executionArn"):
                if rec.get(k) != d.get(k):
                    ctx.violation("DescribeExecution-vs-notification:" + k, S.witness_of(run, dict(arn=arn, iid=iid, record=rec, notification=d)), None)
                    break
            if d.get("status") == "FAILED" and (rec.get("error") != d.get("error") or rec.get("cause") != d.get("cause")):
                ctx.violation("DescribeExecution-vs-notification:error", S.witness_of(run, dict(arn=arn, iid=iid, record=rec, notification=d)), None)
            if rec.get("startDate") is not None and d.get("startDate") != int(rec["startDate"] * 1000):
                ctx.violation("notification-startDate-is-not-record-startDate-in-ms", S.witness_of(run, dict(arn=arn, record=rec, notification=d)), None)
            if rec.get("stopDate") is not None and d.get("stopDate") != int(rec["stopDate"] * 1000):
                ctx.violation("notification-stopDate-is-not-record-stopDate-in-ms", S.witness_of(run, dict(arn=arn, record=rec, notification=d)), None)
            # ListExecutions
            mine = [e for e in lst.get("executions", [])] if code2 == 200 else None
            if mine is None or not any(e["executionArn"] == arn and e["status"] == rec["status"] for e in mine):
                ctx.violation("ListExecutions-disagrees-with-DescribeExecution", S.witness_of(run, dict(arn=arn, iid=iid, listed=mine, record=rec)), None)
            # last history event
            if code3 == 200 and hist.get("events") and rec["status"] in TERMINAL:
                last = hist["events"][-1]
                want = "ExecutionSucceeded" if rec["status"] == "SUCCEEDED" else "ExecutionFailed"
                det = last.get("executionSucceededEventDetails") or last.get("executionFailedEventDetails") or {}
                ok = last["type"] == want and (det.get("output") == rec.get("output") if want == "ExecutionSucceeded" else det.get("error") == rec.get("error"))
                first = hist["events"][0]
                ok_in = first["type"] == "ExecutionStarted" and first.get("executionStartedEventDetails", {}).get("input") == rec.get("input")
                if not ok or not ok_in:
                    n_term = len(w.terminal_notifications(arn))
                    ctx.violation("history-vs-record", S.witness_of(run, dict(arn=arn, iid=iid, last=last, first=first, record=rec)),
                                  "deferred-delegate-after-ack" if (not ok and ok_in and any(C.is_delegate_step(run, s["step"]) for s in w.steps) and last["type"].startswith(("Lambda", "Task"))) else None)
        vals = list(views.values())
        if any(v != vals[0] for v in vals[1:]):
            ctx.violation("instances-disagree-on-DescribeExecution", S.witness_of(run, dict(arn=arn, views=views)), None)
    if len(run.status_seq) >= 1 and sum(len(s) for s in run.status_seq.values()) >= 2:
        ctx.nontrivial([_sched.scn_key(run.scn), _sched.schedule_hash(run)])
    if ctx.counters["evaluations"] % 151 == 1:
        ctx.sample(dict(family=meta.get("family"), config=run.scn.get("config"), schedule=sched, statuses=run.status_seq,
                        subjects=[n["subject"] for n in w.notifications][:6]))


def judge_after_crash(ctx, run, meta, sched):
    """After a kill and restart the file store has lost the execution records and histories (they are re-created from what the surviving
    events carry), so only what every configuration must still get right is demanded: whatever record exists tells the same terminal story
    as the last notification, on every surface that shows it.  With the Redis store nothing is lost and the full comparison applies."""
    if meta.get("store") == "redis":
        # (a restarted engine legitimately announces RUNNING again for a start event that is redelivered to it)
        run.violations = [v for v in run.violations if not (v["rule"] in ("N-duplicate-running", "N-terminal-without-running") and v.get("after_crash"))]
        return judge(ctx, run, meta, sched)
    w = run.world
    for arn in run.execs:
        d = last_detail(run, arn)
        if d is None or d.get("status") not in TERMINAL:
            continue
        for iid in w.engines:
            code, rec = w.api("DescribeExecution", {"executionArn": arn}, iid=iid)
            ctx.count("rest_views_compared")
            if code != 200:
                continue                    # the record may be gone with the process
            if rec.get("status") != d.get("status") or (d["status"] == "FAILED" and rec.get("error") != d.get("error")) or \
                    (d["status"] == "SUCCEEDED" and rec.get("output") != d.get("output")):
                ctx.violation("record-after-restart-contradicts-the-terminal-notification", S.witness_of(run, dict(arn=arn, iid=iid, record=rec, notification=d, meta=meta)), None)
            sm = arn.replace(":execution:", ":stateMachine:").rsplit(":", 1)[0]
            code2, lst = w.api("ListExecutions", {"stateMachineArn": sm}, iid=iid)
            mine = [e for e in lst.get("executions", []) if e["executionArn"] == arn] if code2 == 200 else []
            if mine and mine[0]["status"] != rec.get("status"):
                ctx.violation("ListExecutions-disagrees-with-DescribeExecution", S.witness_of(run, dict(arn=arn, iid=iid, listed=mine, record=rec)), None)
            code3, hist = w.api("GetExecutionHistory", {"executionArn": arn}, iid=iid)
            if code3 == 200 and hist.get("events"):
                last = hist["events"][-1]
                want = "ExecutionSucceeded" if d["status"] == "SUCCEEDED" else "ExecutionFailed"
                if last["type"] != want:
                    ctx.violation("history-after-restart-does-not-end-with-the-terminal-event", S.witness_of(run, dict(arn=arn, iid=iid, last=last, notification=d)), None)


def run(ctx):
    n_cases = ctx.pick(150, 2500)
    n_random = ctx.pick(2, 8)
    configs = [("json-1", {}), ("json-1", {}), ("redis-1", {"store": "redis"}), ("redis-2", {"store": "redis", "instances": ["i1", "i2"]})]
    for k in range(n_cases):
        if not ctx.mine(k):
            continue
        rng = ctx.rng("case", k)
        fam = ["sequential", "fanout-none", "fanout-one"][k % 3]
        cname, cfg = configs[(k // 3) % len(configs)]
        express = (k // 12) % 4 == 3
        scn, meta = F.scenario(rng, fam, n_exec=rng.randint(1, 3), typ="EXPRESS" if express else "STANDARD", config=dict(cfg),
                               via=("event", "rest") if k % 2 else ("event",))
        if k % 5 == 1 and not express:
            scn["machines"]["m"]["logging"] = {"level": rng.choice(["ALL", "ERROR"]), "includeExecutionData": rng.random() < 0.5,
                                               "destinations": [{"cloudWatchLogsLogGroup": {"logGroupArn": "arn:aws:logs:local:0123456789:log-group:x"}}]}
        if "TimeoutSeconds" not in scn["machines"]["m"]["asl"] and k % 9 == 4:
            # executions that hit the machine's own time-out while waiting
            scn["machines"]["m"]["asl"]["TimeoutSeconds"] = 2
            st = scn["machines"]["m"]["asl"]
            st["States"]["Hold"] = {"Type": "Wait", "Seconds": 30, "Next": st["StartAt"]}
            st["StartAt"] = "Hold"
            ctx.count("with_execution_timeout")
        ctx.count("config:" + cname)
        if express:
            ctx.count("express_runs")
        _sched.run_schedules(ctx, scn, meta, judge, n_random, ["c11", k])
    # executions that run as synchronous children of another execution (every form of the integration): their own record, notifications and history
    from lsfverif.checks import c02
    for k in range(ctx.pick(24, 300)):
        if not ctx.mine(k):
            continue
        rng = ctx.rng("child", k)
        cname, cfg = configs[k % len(configs)]
        scn, meta = F.scenario(rng, ["sequential", "fanout-none", "fanout-one"][k % 3], n_exec=1, config=dict(cfg))
        scn = c02.with_child(scn, "plain")
        form = ["startExecution.sync:2", "startExecution.sync"][(k // 3) % 2]
        scn["machines"]["parent"]["asl"]["States"]["Launch"]["Resource"] = "arn:aws:states:local:0123456789:states:" + form
        ctx.count("config:" + cname); ctx.count("child_execution_runs"); ctx.count("child_form:" + form)
        _sched.run_schedules(ctx, scn, dict(meta, family="child-" + meta.get("family", "")), judge, n_random, ["c11c", k])
    # large but legal payloads (the notification carries input and output in full, the record keeps them whatever their size)
    for k, (n_in, mach) in enumerate([(130000, "pass"), (260000, "pass"), (200000, "shrink"), (2000, "grow"), (130000, "task")]):
        for cname, cfg in configs[1:3]:
            if not ctx.mine(k):
                continue
            asl = {"pass": {"StartAt": "A", "States": {"A": {"Type": "Pass", "End": True}}},
                   "shrink": {"StartAt": "A", "States": {"A": {"Type": "Pass", "Result": {"small": 1}, "End": True}}},
                   "grow": {"StartAt": "A", "States": {"A": {"Type": "Pass", "Result": {"big": "y" * 255000}, "End": True}}},
                   "task": {"StartAt": "A", "States": {"A": F.T("echo", Next="B"), "B": {"Type": "Wait", "Seconds": 1, "End": True}}}}[mach]
            scn = {"machines": {"m": {"asl": asl, "type": "STANDARD"}}, "funcs": dict(F.FUNCS), "starts": [{"machine": "m", "name": "big", "input": {"k": "x" * n_in}, "via": "rest" if k % 2 else "event"}],
                   "config": dict(cfg)}
            ctx.count("large_payload_runs"); ctx.count("config:" + cname)
            _sched.run_schedules(ctx, scn, dict(family="large-payload", input_chars=n_in, machine=mach), judge, 0, ["c11big", k])
    # the same story after the engine process was killed and restarted at a random point (the file store loses the execution records, the
    # Redis store keeps them); half of the machines end in a transition to a state that does not exist, so that the first thing the restarted
    # engine does for the execution may be to fail it
    from lsfverif.checks import c04
    for k in range(ctx.pick(60, 1200)):
        if not ctx.mine(k):
            continue
        rng = ctx.rng("crash", k)
        scn, meta = F.scenario(rng, "sequential", n_exec=1, config=dict(configs[k % len(configs)][1]))
        asl = scn["machines"]["m"]["asl"]
        if k % 2:
            last = [n for n, st in asl["States"].items() if st.get("End")]
            if last:
                asl["States"][last[0]].pop("End"); asl["States"][last[0]]["Next"] = "Ghost"
                ctx.count("crash_runs_ending_in_illegal_transition")
        base = S.execute(scn, seed=ctx.seed, monitors=("notes",), settle=False)
        n_steps = len(base.world.steps)
        S.close(base)
        for at in sorted(set(rng.randrange(0, n_steps + 1) for _ in range(ctx.pick(3, 8)))):
            run = S.execute(scn, seed=ctx.seed, hooks=[c04.crash_hook(at, restart_delay=rng.choice([0.0, 0.5]))])
            try:
                _sched.observe(ctx, run)
                ctx.count("crash_and_restart_runs")
                ctx.distinct("schedules", [_sched.scn_key(scn), "crash", at])
                judge_after_crash(ctx, run, dict(meta, family="crash-restart", crash_after_step=at, store=scn["config"].get("store", "json")), "crash-%d" % at)
            finally:
                S.close(run)
    reread_family(ctx)


def reread_family(ctx):
    """Views are read, the world moves on, the views are read again: an execution is listed while RUNNING (a Wait), after it ended, and after its name was
    started again with another outcome (the engine accepts that; whether it should is C10's listed finding) - through every instance and both front ends,
    ListExecutions (with and without statusFilter) must tell what DescribeExecution tells at that moment."""
    from lsfverif.sim.world import World
    asl = {"StartAt": "W", "States": {"W": {"Type": "Wait", "Seconds": 2, "Next": "C"},
                                      "C": {"Type": "Choice", "Choices": [{"Variable": "$.ok", "BooleanEquals": True, "Next": "Yes"}], "Default": "No"},
                                      "Yes": {"Type": "Succeed"}, "No": {"Type": "Fail", "Error": "Not.Ok", "Cause": "c"}}}
    k = 0
    for cname, cfg in (("json-1", {}), ("redis-1", {"store": "redis"}), ("redis-2", {"store": "redis", "instances": ("i1", "i2")})):
        for first_ok in (True, False):
            k += 1
            if not ctx.mine(k):
                continue
            with World(seed=ctx.seed, store=cfg.get("store", "json"), instances=tuple(cfg.get("instances", ("i1",)))) as w:
                code, body = w.api("CreateStateMachine", {"name": "rr", "definition": json.dumps(asl), "roleArn": "arn:aws:iam::0123456789:role/r"})
                sm = body["stateMachineArn"]

                def read_all(when):
                    for iid in w.engines:
                        for front in ("asyncio", "blocking"):
                            ctx.count("rest_views_compared"); ctx.count("reread_view_comparisons")
                            c1, rec = w.api("DescribeExecution", {"executionArn": ex}, iid=iid, flavour=front)
                            c2, lst = w.api("ListExecutions", {"stateMachineArn": sm}, iid=iid, flavour=front)
                            if c1 != 200 or c2 != 200:
                                ctx.violation("view-missing-for-a-started-execution", dict(when=when, iid=iid, front_end=front, codes=[c1, c2], config=cname), None)
                                continue
                            mine = [e for e in lst.get("executions", []) if e["executionArn"] == ex]
                            want = {f: rec.get(f) for f in ("status", "startDate", "stopDate", "name", "stateMachineArn")}
                            got = {f: mine[0].get(f) for f in want} if len(mine) == 1 else None
                            if got != want:
                                ctx.violation("ListExecutions-disagrees-with-DescribeExecution", dict(when=when, iid=iid, front_end=front, listed=mine, record=rec, config=cname,
                                                                                                    family="reread"), None)
                            for flt in ("RUNNING", "SUCCEEDED", "FAILED"):
                                c3, l3 = w.api("ListExecutions", {"stateMachineArn": sm, "statusFilter": flt}, iid=iid, flavour=front)
                                listed = c3 == 200 and any(e["executionArn"] == ex for e in l3.get("executions", []))
                                if listed != (rec.get("status") == flt):
                                    ctx.violation("ListExecutions-statusFilter-disagrees-with-DescribeExecution", dict(when=when, iid=iid, front_end=front, filter=flt, listed=listed,
                                                                                                                     record=rec, config=cname, family="reread"), None)
                ok = first_ok
                for rnd in range(3):
                    code, body = w.api("StartExecution", {"stateMachineArn": sm, "name": "same", "input": json.dumps({"ok": ok, "round": rnd})},
                                       iid=list(w.engines)[rnd % len(w.engines)])
                    if code != 200:
                        ctx.count("reread_restart_refused")
                        break
                    ex = body["executionArn"]
                    ctx.evaluation(); ctx.count("reread_rounds"); ctx.nontrivial([cname, first_ok, rnd])
                    w.run(until=lambda world: any(not world.is_housekeeping(t) for t in world.all_timers()))
                    read_all("round %d, waiting" % rnd)
                    w.run()
                    read_all("round %d, ended" % rnd)
                    w.advance(1.5); w.run()
                    ok = not ok


def witnesses(ctx):
    pass


def replay(ctx, doc):
    w = doc["witness"]
    if w.get("family") == "reread":
        print(json.dumps(w, indent=1)[:3000])
        reread_family(ctx)          # (deterministic: the whole family is run again)
        return
    run = S.execute(w["scenario"], labels=w.get("schedule"), seed=w.get("seed", 0))
    for n in run.world.notifications:
        print(n["t"], n["subject"], json.dumps(n["body"]["detail"])[:300])
    judge(ctx, run, w.get("meta") or {}, "replay")
    S.close(run)
