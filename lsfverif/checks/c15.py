"""
C15  Child executions and task-token callbacks complete exactly their launching task.

Real parent and child executions run in the simulated world (real TaskDispatcher, StateEngine, REST handlers, fake broker) under canonical and
random schedules.  Monitors:

  F  integration forms: the launching task's result for startExecution / .sync / .sync:2 / aws-sdk:sfn:startSyncExecution is compared with
     the child's DescribeExecution record under the documented (PascalCase) names; a synchronous form may only continue the parent once the
     child's record is terminal and does so at that very instant; child failure => States.TaskFailed carrying the child's error; invalid
     combinations fail the task and start no child; parent at top level, in a Parallel branch, in Map iterations
  T  task tokens: the task continues only through SendTaskSuccess/Failure with the token it handed out, with exactly the supplied output or
     error, at most once; duplicate, late, truncated, foreign and forged tokens; plain RPC replies before/after the callback; two token
     tasks pending at once (a token completes its own task only)
  X  cancellation: when the launching task times out or its branch is terminated, the child's pending task / wait is cancelled: the child
     sends no further RPC request and its next state is never entered
"""
import json, base64, copy, random
from lsfverif.sim.world import World, EPOCH0, ROLE, ACCOUNT, NOREPLY, DELAY, make_random, canonical
from lsfverif.mon.monitors import NotificationMonitor, AckMonitor, TERMINAL

ID = "C15"
ENGINE = "simworld"
LEVEL = "exploration"
RULE = ("case = (family, integration form, child behaviour, placement of the launching task, handler, callback stream, schedule seed): forms x {child succeeds, fails, "
        "slower than the parent's time-out} x {top level, Parallel branch, Map iterations} x {Catch, none}; token streams over {valid, duplicate, late, truncated, "
        "foreign, forged, finished-task} tokens x {no reply, plain reply before, plain reply after, error reply}; each case under the canonical and random schedules; "
        "non-trivial = a case with a synchronous child or a token; distinct by the case tuple plus schedule hash")
ASSUMPTIONS = ["the child's DescribeExecution record is the reference for the fields handed to the parent (EXPRESS children, which have no record, are compared with the "
               "values known by construction)", "virtual time: a synchronous parent continues at the same instant at which the child became terminal",
               "a well-formed token whose task does not exist cannot be told from a valid one by a stateless front end: its acceptance is a listed finding, its effect on "
               "tasks is still checked"]
FLOORS = {"evaluations": 400, "nontrivial": 250, "family:forms": 150, "family:tokens": 120, "family:cancel": 40, "sync_results_compared": 80, "fields_compared": 600,
          "continuations_checked_against_child_status": 80, "callbacks_sent": 150, "callbacks_refused": 40, "token_tasks_completed_by_callback": 60,
          "cancellations_observed": 40, "token_layout:sequence": 20, "token_layout:retry": 8, "token_layout:restart": 25, "cancel:exec-timeout": 8, "placement:top": 60, "placement:parallel": 30, "placement:map": 30, "schedules:random": 150}
SHARDS = {"quick": 16, "thorough": 16}
TECHNIQUE = "trace monitors over real parent/child executions and REST callbacks in the simulated world (result-shape comparison with the child's record, ordering and exactly-once oracles)"
LEVEL_TEXT = ("Every integration form, child outcome, placement and callback stream is executed on the real dispatcher under several schedules; the launching task's result, "
              "its instant of completion, the REST answers and the RPC requests after cancellation are compared with what the property prescribes. Held = no divergence "
              "up to the listed findings.")
LEVEL_NOTE = "machine pairs are a small constructed corpus, not arbitrary definitions; engine crashes are out of this property's scope (C04)"
DESIGN_REF = "DESIGN.md section 6, C15"

FN = "arn:aws:rpcmessage:local::function:"
DOC_NAMES = {"executionArn": "ExecutionArn", "stateMachineArn": "StateMachineArn", "name": "Name", "status": "Status", "startDate": "StartDate", "stopDate": "StopDate",
             "input": "Input", "output": "Output"}

CHILDREN = {
    "ok": {"StartAt": "C1", "States": {"C1": {"Type": "Task", "Resource": FN + "childwork", "End": True}}},
    "fail": {"StartAt": "C1", "States": {"C1": {"Type": "Task", "Resource": FN + "childwork", "Next": "C2"}, "C2": {"Type": "Fail", "Error": "Child.Err", "Cause": "child cause"}}},
    "slowtask": {"StartAt": "C1", "States": {"C1": {"Type": "Task", "Resource": FN + "slowwork", "Next": "C2"}, "C2": {"Type": "Task", "Resource": FN + "childnext", "End": True}}},
    "slowwait": {"StartAt": "C1", "States": {"C1": {"Type": "Wait", "Seconds": 30, "Next": "C2"}, "C2": {"Type": "Task", "Resource": FN + "childnext", "End": True}}},
}
FORMS = {"async": ("states", "startExecution"), "sync": ("states", "startExecution.sync"), "sync2": ("states", "startExecution.sync:2"),
         "sdk": ("aws-sdk", "sfn:startSyncExecution")}


def call_state(form, child_arn, timeout=None, catch=False, end=False, name_path="$.child"):
    rtype, res = FORMS[form]
    st = {"Type": "Task", "Resource": "arn:aws:states:local::%s:%s" % (rtype, res),
          "Parameters": {"StateMachineArn": child_arn, "Input": {"k.$": "$.k"}, "Name.$": name_path}, "ResultPath": "$.r"}
    if timeout:
        st["TimeoutSeconds"] = timeout
    if catch:
        st["Catch"] = [{"ErrorEquals": ["States.ALL"], "ResultPath": "$.caught", "Next": "Handled" if not end else "HandledB"}]
    return st


def parent_machine(form, child_arn, placement, timeout=None, catch=False, sibling=None):
    after = {"Type": "Task", "Resource": FN + "after", "End": True}
    if placement == "top":
        call = call_state(form, child_arn, timeout, catch)
        call["Next"] = "After"
        sts = {"Call": call, "After": after}
        if catch:
            sts["Handled"] = {"Type": "Pass", "Next": "After"}
        return {"StartAt": "Call", "States": sts}
    call = call_state(form, child_arn, timeout, catch, end=True)
    call["End"] = True
    bsts = {"Call": call}
    if catch:
        bsts["HandledB"] = {"Type": "Pass", "End": True}
    body = {"StartAt": "Call", "States": bsts}
    if placement == "parallel":
        sib = {"StartAt": "Sib", "States": {"Sib": {"Type": "Task", "Resource": FN + (sibling or "sibling"), "End": True}}}
        fan = {"Type": "Parallel", "Branches": [body, sib], "Next": "After"}
    else:
        fan = {"Type": "Map", "ItemsPath": "$.items", "ItemProcessor": body, "Next": "After"}
    return {"StartAt": "Fan", "States": {"Fan": fan, "After": after}}


class Sim(object):
    def __init__(self, ctx, seed, ttl=600):
        self.ctx = ctx
        self.w = World(seed=seed, execution_ttl=ttl)
        self.notes = NotificationMonitor(self.w)
        self.acks = AckMonitor(self.w, self.notes)
        self.snaps = []          # (label, {arn: status}) taken synchronously inside the step in which something of interest happens
        self.tokens = []
        w = self.w
        w.add_worker("after", self._after)
        w.add_worker("childwork", lambda wk, req: {"worked": req["payload"].get("k") if isinstance(req["payload"], dict) else None})
        w.add_worker("slowwork", lambda wk, req: DELAY(30, {"slow": 1}))
        w.add_worker("childnext", lambda wk, req: {"next": 1})
        w.add_worker("sibling", lambda wk, req: {"sib": 1})
        w.add_worker("latefail", lambda wk, req: DELAY(3, {"errorType": "Sibling.Boom", "errorMessage": "late failure"}))
        from lsfverif.mon.monitors import TOPIC
        w.broker.taps.setdefault(TOPIC, []).append(self._on_note)

    def records(self):
        e = next(iter(self.w.engines.values()))
        out = {}
        for k in list(e.se.executions.keys()):
            try:
                out[k] = dict(e.se.executions[k]).get("status")
            except KeyError:
                pass
        return out

    def _after(self, wk, req):
        self.snaps.append(("after", req["op"], self.w.clock.now, self.records(), req["payload"]))
        return req["payload"]

    def _on_note(self, routing_key, body, props):
        d = json.loads(body)["detail"]
        self.snaps.append(("note", len(self.w.broker.oplog), self.w.clock.now, self.records(), (d["executionArn"], d["status"])))

    def machine(self, name, asl, typ="STANDARD"):
        return self.w.create_machine(name, copy.deepcopy(asl), typ=typ)

    def close(self):
        self.w.close()

    def policy(self, s):
        return canonical if s == 0 else make_random(random.Random(s))

    def witness(self, extra):
        w = self.w
        d = dict(extra)
        d["notifications"] = [(round(n["t"] - EPOCH0, 3), n["body"]["detail"]["executionArn"].split(":execution:")[1], n["body"]["detail"]["status"],
                               n["body"]["detail"].get("error")) for n in w.notifications][:30]
        d["requests"] = {fn: [(round(r["t"] - EPOCH0, 3), json.dumps(r["payload"])[:200]) for r in wk.requests][:8] for fn, wk in w.workers.items() if wk.requests}
        d["schedule"] = [list(l) for l in w.trace[:200]]
        return d


def exarn(sm, name):
    return sm.replace(":stateMachine:", ":execution:") + ":" + name


def check_result_shape(ctx, sim, form, r, child_arn, child_exarn, k, child_kind, child_type, wit):
    """Result of a synchronous launching task against the child's record / the values known by construction."""
    ctx.count("sync_results_compared")
    if not isinstance(r, dict):
        ctx.violation("sync-result-is-not-an-object", wit(dict(result=r)), None)
        return
    code, desc = sim.w.api("DescribeExecution", {"executionArn": child_exarn})
    if code != 200:
        # EXPRESS child: no record; construct the reference
        desc = {"executionArn": child_exarn, "stateMachineArn": child_arn, "name": child_exarn.rsplit(":", 1)[1], "status": "SUCCEEDED",
                "input": json.dumps({"k": k}), "output": json.dumps({"worked": k})}
    missing, wrong = [], []
    for api_name, doc_name in DOC_NAMES.items():
        if api_name not in desc:
            continue
        ctx.count("fields_compared")
        want = desc[api_name]
        if form == "sync2" and api_name in ("input", "output") and isinstance(want, str):
            want = json.loads(want)
        if doc_name not in r:
            missing.append(doc_name)
        elif r[doc_name] != want:
            wrong.append((doc_name, r[doc_name], want))
    if missing:
        ctx.violation("sync-result-lacks-documented-field-names", wit(dict(missing=missing, result_keys=sorted(r))),
                      "child-result-keys-capitalize" if all(m.capitalize() in r for m in missing) else None)
    if wrong:
        ctx.violation("sync-result-field-differs-from-child-record", wit(dict(wrong=wrong)), None)


def forms_case(ctx, k):
    rng = ctx.rng("forms", k)
    form = rng.choice(["async", "sync", "sync", "sync2", "sync2", "sdk"])
    placement = rng.choice(["top", "top", "parallel", "map"])
    child_kind = rng.choice(["ok", "ok", "fail", "slowtask"] if form != "async" else ["ok", "fail", "slowtask", "slowwait"])
    invalid = None
    if rng.random() < 0.18:
        invalid = rng.choice(["unknown-machine", "sync-from-express", "sdk-standard-child", "no-arn"])
    catch = rng.random() < 0.4
    sched = 0 if rng.random() < 0.3 else rng.randrange(1, 10 ** 6)
    child_type = "EXPRESS" if form == "sdk" else rng.choice(["STANDARD", "STANDARD", "EXPRESS"])
    parent_type = "STANDARD"
    if invalid == "sync-from-express":
        form, parent_type = rng.choice(["sync", "sync2"]), "EXPRESS"
    if invalid == "sdk-standard-child":
        form, child_type = "sdk", "STANDARD"
    timeout = 5 if (child_kind == "slowtask" and form != "async" and not invalid) else None
    if form != "async" and child_type == "EXPRESS" and form != "sdk" and not invalid:
        child_type = "STANDARD"            # (.sync of an EXPRESS child is legal in AWS but its record cannot be described: keep the reference simple)
    case = dict(family="forms", form=form, child=child_kind, placement=placement, catch=catch, invalid=invalid, child_type=child_type, parent_type=parent_type,
                schedule=sched, timeout=timeout)
    ctx.evaluation(); ctx.count("family:forms"); ctx.count("placement:" + placement); ctx.count("form:" + form)
    ctx.count("schedules:random" if sched else "schedules:canonical")
    if form != "async":
        ctx.nontrivial(case)
    sim = Sim(ctx, ctx.seed)
    try:
        w = sim.w
        child_arn = sim.machine("c", CHILDREN[child_kind], typ=child_type)
        target = child_arn
        if invalid == "unknown-machine":
            target = child_arn.replace(":c", ":ghost")
        pm = parent_machine(form, target, placement, timeout, catch)
        if invalid == "no-arn":
            for _, st in walk_states(pm):
                if st.get("Type") == "Task" and "Parameters" in st and "StateMachineArn" in st["Parameters"]:
                    del st["Parameters"]["StateMachineArn"]
        parn = sim.machine("p", pm, typ=parent_type)
        if placement == "map":
            items = [{"k": 10 + i, "child": "ce%d" % i} for i in range(rng.randint(1, 3))]
            data = {"items": items}
        else:
            items = [{"k": 7, "child": "ce"}]
            data = dict(items[0])
        pe = w.start_event(parn, "pe", data)
        w.run(sim.policy(sched))
        ctx.distinct("runs", [case, len(w.trace)])
        wit = lambda extra: sim.witness(dict(extra, case=case))
        st, out, err, t = w.outcome(pe)
        children = [exarn(child_arn, it["child"]) for it in items]
        started = {a for a in sim.notes.status if a != pe}
        # ---- invalid combinations: the task fails, no child runs
        if invalid:
            ctx.count("invalid_combinations")
            failed = (st == "FAILED") or (catch and st == "SUCCEEDED" and "caught" in json.dumps(out))
            if not failed:
                ctx.violation("invalid-combination-did-not-fail-the-task", wit(dict(status=st, output=out)), None)
            if started:
                ctx.violation("invalid-combination-started-a-child", wit(dict(started=sorted(started))), None)
            return
        afters = [s for s in sim.snaps if s[0] == "after"]

        def results_of(payload):
            if placement == "top":
                return [payload]
            return list(payload) if isinstance(payload, list) else [payload]
        # ---- asynchronous form: returns at once with the child's ARN
        if form == "async":
            if st != "SUCCEEDED" or len(afters) != 1:
                ctx.violation("async-start-did-not-let-the-parent-continue", wit(dict(status=st, error=err, afters=len(afters))), None)
                return
            docs = [d for d in results_of(afters[0][4]) if isinstance(d, dict) and "r" in d] if placement != "parallel" else [afters[0][4][0]]
            for d, ca in zip(docs, children):
                r = d.get("r")
                if not (isinstance(r, dict) and r.get("executionArn") == ca and isinstance(r.get("startDate"), (int, float))):
                    ctx.violation("async-result-is-not-the-childs-arn", wit(dict(result=r, child=ca)), None)
            if afters[0][2] - EPOCH0 > 0.001:
                ctx.violation("async-start-did-not-return-at-once", wit(dict(continued_at=afters[0][2] - EPOCH0)), None)
            for ca in children:
                seq = [s for s, _ in sim.notes.status.get(ca, [])]
                want_last = {"ok": "SUCCEEDED", "fail": "FAILED", "slowtask": "SUCCEEDED", "slowwait": "SUCCEEDED"}[child_kind]
                if not seq or seq[-1] != want_last:
                    ctx.violation("async-child-did-not-run-to-its-own-end", wit(dict(child=ca, statuses=seq, expected=want_last)), None)
            return
        # ---- synchronous forms
        child_fails = child_kind == "fail"
        timed_out = child_kind == "slowtask"
        if timed_out:
            return judge_cancel(ctx, sim, case, pe, children, catch, wit, cause="timeout", at=5.0)
        if child_fails:
            ctx.count("child_failures_propagated")
            if catch:
                if st != "SUCCEEDED" or len(afters) != 1:
                    ctx.violation("caught-child-failure-did-not-continue-the-parent", wit(dict(status=st, error=err)), None)
                    return
                caughts = [d.get("caught") for d in results_of(afters[0][4]) if isinstance(d, dict) and "caught" in d]
                if not caughts:
                    ctx.violation("child-failure-not-delivered-to-the-catcher", wit(dict(payload=afters[0][4])), None)
                for c in caughts:
                    if c.get("Error") != "States.TaskFailed" or "Child.Err" not in str(c.get("Cause")):
                        ctx.violation("child-failure-not-States.TaskFailed-with-the-childs-error", wit(dict(caught=c)), None)
            else:
                if st != "FAILED" or err != "States.TaskFailed":
                    ctx.violation("child-failure-not-States.TaskFailed-with-the-childs-error", wit(dict(status=st, error=err)), None)
                else:
                    cause = [n["body"]["detail"].get("cause") for n in w.notifications if n["body"]["detail"]["executionArn"] == pe][-1]
                    if "Child.Err" not in str(cause):
                        ctx.violation("child-failure-not-States.TaskFailed-with-the-childs-error", wit(dict(cause=cause)), None)
            continuation = afters[0] if afters else [s for s in sim.snaps if s[0] == "note" and s[4] == (pe, "FAILED")][0]
        else:
            if st != "SUCCEEDED" or len(afters) != 1:
                ctx.violation("successful-child-did-not-complete-the-parent-task", wit(dict(status=st, error=err, afters=len(afters))), None)
                return
            continuation = afters[0]
            docs = results_of(afters[0][4])
            if placement == "parallel":
                docs = docs[:1]
            for d, (it, ca) in zip(docs, zip(items, children)):
                check_result_shape(ctx, sim, form, d.get("r") if isinstance(d, dict) else None, child_arn, ca, it["k"], child_kind, child_type, wit)
        # completion instant: not before the child's record is terminal, and at the instant it became terminal
        ctx.count("continuations_checked_against_child_status")
        recs = continuation[3]
        then = {ca: recs.get(ca) for ca in children}
        if child_type == "STANDARD":
            # success needs every child; a failure is passed on as soon as the first child has failed
            bad = [ca for ca in children if then[ca] not in TERMINAL]
            if (bad and not child_fails) or (child_fails and len(bad) == len(children)):
                ctx.violation("parent-continued-before-the-child-was-terminal", wit(dict(children_then=then)), None)
        for ca in children:
            terms = [n for n in w.notifications if n["body"]["detail"]["executionArn"] == ca and n["body"]["detail"]["status"] in TERMINAL]
            if len(terms) != 1:
                ctx.violation("child-terminal-notifications != 1", wit(dict(child=ca, n=len(terms))), None)
        ends = [n["t"] for n in w.notifications if n["body"]["detail"]["executionArn"] in children and n["body"]["detail"]["status"] in TERMINAL]
        last_child_end = (min(ends) if child_fails else max(ends)) if ends else 0
        if last_child_end and abs(continuation[2] - last_child_end) > 0.001:
            ctx.violation("parent-did-not-continue-when-the-child-became-terminal", wit(dict(child_end=last_child_end - EPOCH0, continued=continuation[2] - EPOCH0)), None)
        for v in sim.notes.violations:
            ctx.violation(v["rule"], wit(dict(violation=v)), None)
    finally:
        sim.close()


def walk_states(m):
    for n, st in list(m.get("States", {}).items()):
        yield n, st
        for b in st.get("Branches", []) if isinstance(st, dict) else []:
            yield from walk_states(b)
        if isinstance(st, dict) and "ItemProcessor" in st:
            yield from walk_states(st["ItemProcessor"])


def judge_cancel(ctx, sim, case, pe, children, catch, wit, cause, at):
    """The launching task was given up at virtual time `at`: nothing of the child may move afterwards."""
    w = sim.w
    ctx.count("cancellations_observed")
    st, out, err, t = w.outcome(pe)
    if cause == "timeout":
        ok = (st == "FAILED" and err == "States.Timeout") if not catch else st == "SUCCEEDED"
        if not ok:
            ctx.violation("parent-task-time-out-not-reported", wit(dict(status=st, error=err)), None)
    if cause == "exec-timeout" and not (st == "FAILED" and err == "States.Timeout"):
        ctx.violation("parent-execution-time-out-not-reported", wit(dict(status=st, error=err)), None)
    late = []
    for fn in ("childnext", "slowwork", "childwork"):
        for r in w.workers[fn].requests:
            if r["t"] - EPOCH0 > at + 0.001:
                late.append((fn, round(r["t"] - EPOCH0, 3)))
    if w.workers["childnext"].requests:
        late.append(("childnext-entered", [round(r["t"] - EPOCH0, 3) for r in w.workers["childnext"].requests]))
    if late:
        ctx.violation("child-kept-running-after-its-launching-task-was-given-up", wit(dict(rpc_requests_after_cancellation=late, cancelled_at=at, cause=cause)), None)
    for ca in children:
        seq = [s for s, _ in sim.notes.status.get(ca, [])]
        if seq and seq[-1] == "SUCCEEDED":
            ctx.violation("child-succeeded-after-its-launching-task-was-given-up", wit(dict(child=ca, statuses=seq)), None)


def cancel_case(ctx, k):
    rng = ctx.rng("cancel", k)
    form = rng.choice(["sync", "sync2"])
    child_kind = rng.choice(["slowtask", "slowwait"])
    cause = rng.choice(["timeout", "terminated", "exec-timeout"])
    placement = rng.choice(["top", "map"]) if cause != "terminated" else "parallel"
    catch = rng.random() < 0.4 and cause != "terminated"
    sched = 0 if rng.random() < 0.3 else rng.randrange(1, 10 ** 6)
    case = dict(family="cancel", form=form, child=child_kind, placement=placement, cause=cause, catch=catch, schedule=sched)
    ctx.evaluation(); ctx.count("family:cancel"); ctx.count("cancel:" + cause); ctx.nontrivial(case)
    ctx.count("schedules:random" if sched else "schedules:canonical")
    sim = Sim(ctx, ctx.seed)
    try:
        w = sim.w
        child_arn = sim.machine("c", CHILDREN[child_kind])
        pm = parent_machine(form, child_arn, placement, timeout=5 if cause == "timeout" else None, catch=catch, sibling="latefail")
        if cause == "exec-timeout":
            pm["TimeoutSeconds"] = 5           # the execution's own deadline (no handler intercepts it), the Task has none
        parn = sim.machine("p", pm)
        if placement == "map":
            items = [{"k": 10 + i, "child": "ce%d" % i} for i in range(rng.randint(1, 2))]
            data = {"items": items}
        else:
            items = [{"k": 7, "child": "ce"}]
            data = dict(items[0])
        pe = w.start_event(parn, "pe", data)
        w.run(sim.policy(sched))
        ctx.distinct("runs", [case, len(w.trace)])
        wit = lambda extra: sim.witness(dict(extra, case=case))
        children = [exarn(child_arn, it["child"]) for it in items]
        if cause == "terminated":
            st, out, err, t = w.outcome(pe)
            if st != "FAILED" or err != "Sibling.Boom":
                ctx.violation("sibling-failure-did-not-fail-the-parent", wit(dict(status=st, error=err)), None)
                return
        judge_cancel(ctx, sim, case, pe, children, catch, wit, cause, at=3.0 if cause == "terminated" else 5.0)
    finally:
        sim.close()


# ------------------------------------------------------------------------------------------------- tokens
def token_machine(n_tasks, timeout=None, via="invoke", child_arn=None):
    """n_tasks token tasks side by side (Parallel) or one at top level; each hands its token to worker `cb` and continues to `after`."""
    def task(i):
        if via == "invoke":
            st = {"Type": "Task", "Resource": "arn:aws:states:local::rpcmessage:invoke.waitForTaskToken",
                  "Parameters": {"FunctionName": FN + "cb", "Payload": {"token.$": "$$.Task.Token", "i": i}}, "ResultPath": "$.r"}
        else:
            st = {"Type": "Task", "Resource": "arn:aws:states:local::states:startExecution.waitForTaskToken",
                  "Parameters": {"StateMachineArn": child_arn, "Input": {"token.$": "$$.Task.Token", "i": i, "k": i}, "Name": "tok%d" % i}, "ResultPath": "$.r"}
        if timeout:
            st["TimeoutSeconds"] = timeout
        return st
    if n_tasks == 1:
        t = task(0); t["Next"] = "After"
        return {"StartAt": "T0", "States": {"T0": t, "After": {"Type": "Task", "Resource": FN + "after", "End": True}}}
    branches = []
    for i in range(n_tasks):
        t = task(i); t["Next"] = "A%d" % i
        branches.append({"StartAt": "T%d" % i, "States": {"T%d" % i: t, "A%d" % i: {"Type": "Task", "Resource": FN + "after", "End": True}}})
    return {"StartAt": "Fan", "States": {"Fan": {"Type": "Parallel", "Branches": branches, "End": True}}}


def b64(s):
    return base64.b64encode(s.encode()).decode()


def token_case(ctx, k):
    rng = ctx.rng("tok", k)
    n_tasks = 1 if rng.random() < 0.6 else 2
    via = "invoke" if rng.random() < 0.8 else "child"
    reply = rng.choice(["none", "none", "plain-before", "plain-after", "error"]) if via == "invoke" else "none"
    timeout = 20 if rng.random() < 0.3 else None
    sched = 0 if rng.random() < 0.3 else rng.randrange(1, 10 ** 6)
    stream_kinds = ["truncated", "garbage", "foreign-suffix", "forged-unknown", "forged-other-queue", "valid-success", "valid-failure", "duplicate", "late-after-timeout",
                    "finished-task", "empty-output-fields"]
    case = dict(family="tokens", n_tasks=n_tasks, via=via, reply=reply, timeout=timeout, schedule=sched)
    ctx.evaluation(); ctx.count("family:tokens"); ctx.count("token_via:" + via); ctx.count("token_reply:" + reply)
    ctx.count("schedules:random" if sched else "schedules:canonical")
    sim = Sim(ctx, ctx.seed)
    try:
        w = sim.w
        tokens = {}
        plain_value = rng.choice([{"plain": "reply"}, "accepted", 202, True, [], None, {}, 0, ""])
        case["plain_value"] = plain_value

        def cb(wk, req):
            p = req["payload"]
            tokens[p.get("i")] = p.get("token")
            if reply == "plain-before":
                return copy.deepcopy(plain_value)        # an ordinary acknowledgement of the processor: any JSON value, not only an object
            if reply == "error":
                return {"errorType": "Cb.Error", "errorMessage": "processor failed"}
            if reply == "plain-after":
                return DELAY(8, copy.deepcopy(plain_value))
            return NOREPLY
        w.add_worker("cb", cb)
        child_arn = None
        if via == "child":
            # the child hands the token it was given to the same recorder and ends; its end must NOT complete the task
            child_arn = sim.machine("c", {"StartAt": "C1", "States": {"C1": {"Type": "Task", "Resource": FN + "cb", "End": True}}})
            reply = "plain-before"
        parn = sim.machine("p", token_machine(n_tasks, timeout, via, child_arn))
        pe = w.start_event(parn, "pe", {"x": 1})
        pol = sim.policy(sched)
        w.run(pol, until=lambda world: len(tokens) == n_tasks)
        w.drain_instantaneous(pol)
        wit = lambda extra: sim.witness(dict(extra, case=case, stream=stream))
        stream = []
        if reply == "error" and tokens:
            # an error reply of the processor fails the task (and with it the execution) without any callback
            w.run(pol)
            st, out, err, t = w.outcome(pe)
            if st != "FAILED" or err != "Cb.Error":
                ctx.violation("error-reply-did-not-fail-the-token-task", wit(dict(status=st, error=err)), None)
            return
        if len(tokens) != n_tasks or any(not isinstance(t, str) for t in tokens.values()):
            ctx.violation("token-task-did-not-hand-out-a-token", sim.witness(dict(case=case, tokens=tokens)), None)
            return
        ctx.nontrivial(case)
        if reply == "error":
            # an error reply of the processor fails the task without any callback
            w.run(pol)
            st, out, err, t = w.outcome(pe)
            if st != "FAILED" or err != "Cb.Error":
                ctx.violation("error-reply-did-not-fail-the-token-task", wit(dict(status=st, error=err)), None)
            return
        afters = lambda: [s for s in sim.snaps if s[0] == "after"]
        if afters() or w.outcome(pe)[0] != "NONE":
            ctx.violation("token-task-completed-without-a-callback", wit(dict(status=w.outcome(pe)[0], afters=len(afters()))), None)
            return
        raw = {i: base64.b64decode(t).decode() for i, t in tokens.items()}
        target = rng.randrange(n_tasks)
        others = [i for i in range(n_tasks) if i != target]
        # ---- hostile prefix of the stream: none of it may complete or disturb any task
        hostile = rng.sample(["truncated", "garbage", "foreign-suffix", "forged-unknown", "forged-other-queue", "missing-token", "not-json-output", "extra-segment", "extra-segment"],
                             rng.randint(1, 4))
        for hk in hostile:
            tok = tokens[target]
            params = {"taskToken": tok, "output": json.dumps({"from": hk})}
            must = "InvalidToken"
            if hk == "truncated":
                params["taskToken"] = tok[: max(4, len(tok) // 2)]
            elif hk == "garbage":
                params["taskToken"] = rng.choice(["!!!notbase64!!!", "AAAA", b64("no-colon"), b64("a:b:c"), b64("x.waitForTaskToken"), "é"])
            elif hk == "extra-segment":
                # the genuine token's text with one more ':'-separated part in front of / behind it: not of the token's form (exactly <id>:<queue>)
                params["taskToken"] = b64(rng.choice(["x:" + raw[target], raw[target] + ":x", "a:b:" + raw[target], ":" + raw[target]]))
            elif hk == "foreign-suffix":
                cid, q = raw[target].split(":")
                params["taskToken"] = b64(cid.replace(".waitForTaskToken", ".invoke") + ":" + q)
            elif hk == "forged-unknown":
                cid, q = raw[target].split(":")
                params["taskToken"] = b64("999999.waitForTaskToken:" + q)
            elif hk == "forged-other-queue":
                cid, q = raw[target].split(":")
                params["taskToken"] = b64(cid + ":some-other-queue")
            elif hk == "missing-token":
                del params["taskToken"]; must = "MissingRequiredParameter"
            elif hk == "not-json-output":
                params["output"] = "{nope"; must = "InvalidOutput"
            action = rng.choice(["SendTaskSuccess", "SendTaskFailure"]) if hk not in ("not-json-output",) else "SendTaskSuccess"
            if action == "SendTaskFailure":
                params.pop("output", None); params.update(error="Forged.Error", cause="forged")
            code, body = w.api(action, params)
            ctx.count("callbacks_sent")
            stream.append([hk, action, code, body.get("__type") if isinstance(body, dict) else body])
            w.drain_instantaneous(pol)
            typ = body.get("__type") if isinstance(body, dict) else None
            if code == 200:
                mech = "well-formed-unknown-token-accepted" if hk in ("forged-unknown", "forged-other-queue") else None
                ctx.violation("foreign-token-not-rejected", wit(dict(kind=hk, code=code, body=body)), mech)
            elif code >= 500 or typ != must:
                ctx.violation("foreign-token-wrong-answer", wit(dict(kind=hk, code=code, body=body, expected=must)), None)
            else:
                ctx.count("callbacks_refused")
            if afters() or w.outcome(pe)[0] != "NONE":
                ctx.violation("foreign-token-affected-a-task", wit(dict(kind=hk, status=w.outcome(pe)[0], afters=len(afters()))), None)
                return
        # ---- the valid callback (or the time-out first)
        plan = rng.choice(["success", "success", "failure", "late-after-timeout" if timeout else "success", "failure-no-error-fields"])
        output = rng.choice([{"answer": 42}, [], 0, "s", {"Error": None, "nested": {"a": [1, 2]}}, None, False])
        if plan == "late-after-timeout":
            w.advance(timeout + 1); w.run(pol)
            st, out, err, t = w.outcome(pe)
            if st != "FAILED" or err != "States.Timeout":
                ctx.violation("token-task-time-out-not-reported", wit(dict(status=st, error=err)), None)
                return
            code, body = w.api("SendTaskSuccess", {"taskToken": tokens[target], "output": json.dumps({"late": 1})})
            ctx.count("callbacks_sent")
            stream.append(["late", "SendTaskSuccess", code, body.get("__type") if isinstance(body, dict) else body])
            n_notes = len(w.notifications)
            w.run(pol)
            if afters() or len(w.notifications) != n_notes:
                ctx.violation("late-callback-affected-a-finished-task", wit(dict(afters=len(afters()))), None)
            return
        if plan == "success":
            code, body = w.api("SendTaskSuccess", {"taskToken": tokens[target], "output": json.dumps(output)})
        elif plan == "failure":
            code, body = w.api("SendTaskFailure", {"taskToken": tokens[target], "error": "Cb.Failed", "cause": "because"})
        else:
            code, body = w.api("SendTaskFailure", {"taskToken": tokens[target]})
        ctx.count("callbacks_sent")
        stream.append(["valid-" + plan, code, body.get("__type") if isinstance(body, dict) else body])
        if code != 200:
            ctx.violation("valid-token-refused", wit(dict(plan=plan, code=code, body=body)),
                          "sendtaskfailure-without-error-internal-error" if plan == "failure-no-error-fields" else None)
            return
        w.drain_instantaneous(pol)
        # duplicates of the same token with another payload: at most once
        if rng.random() < 0.6:
            c2, b2 = w.api("SendTaskSuccess", {"taskToken": tokens[target], "output": json.dumps({"second": True})})
            ctx.count("callbacks_sent"); ctx.count("duplicate_callbacks")
            stream.append(["duplicate", "SendTaskSuccess", c2, b2.get("__type") if isinstance(b2, dict) else b2])
            w.drain_instantaneous(pol)
        # other token tasks are still pending: complete them with their own tokens
        mid_afters = list(afters())
        if plan == "success":
            ctx.count("token_tasks_completed_by_callback")
            mine = [a for a in mid_afters if isinstance(a[4], dict) and a[4].get("r") == output]
            if len(mid_afters) != 1 or len(mine) != 1:
                ctx.violation("callback-did-not-complete-exactly-its-task-with-the-supplied-output", wit(dict(supplied=output, continuations=[a[4] for a in mid_afters])), None)
                return
        else:
            if mid_afters:
                ctx.violation("failure-callback-continued-a-task", wit(dict(continuations=[a[4] for a in mid_afters])), None)
        for i in others:
            if plan != "success":
                break          # the failure has ended the execution
            code, body = w.api("SendTaskSuccess", {"taskToken": tokens[i], "output": json.dumps({"other": i})})
            ctx.count("callbacks_sent")
            stream.append(["other", i, code])
            w.drain_instantaneous(pol)
        if reply == "plain-after":
            w.advance(9)
        w.run(pol)
        st, out, err, t = w.outcome(pe)
        fin = afters()
        if plan == "success":
            want_n = n_tasks
            if st != "SUCCEEDED" or len(fin) != want_n:
                ctx.violation("token-tasks-not-completed-exactly-once", wit(dict(status=st, error=err, continuations=len(fin), expected=want_n)), None)
            else:
                got = sorted(json.dumps(a[4].get("r"), sort_keys=True) for a in fin)
                want = sorted([json.dumps(output, sort_keys=True)] + [json.dumps({"other": i}, sort_keys=True) for i in others])
                if got != want:
                    ctx.violation("token-task-result-is-not-the-supplied-output", wit(dict(got=got, want=want)), None)
        else:
            want_err, want_cause = ("Cb.Failed", "because") if plan == "failure" else (None, None)
            cause = [n["body"]["detail"].get("cause") for n in w.notifications if n["body"]["detail"]["executionArn"] == pe and n["body"]["detail"]["status"] == "FAILED"]
            if st != "FAILED" or (want_err and err != want_err) or (want_cause and (not cause or want_cause not in str(cause[-1]))):
                ctx.violation("failure-callback-did-not-fail-the-task-with-the-supplied-error", wit(dict(status=st, error=err, cause=cause)), None)
        # finished-task token: nothing may happen any more
        n_notes, n_after = len(w.notifications), len(afters())
        code, body = w.api("SendTaskSuccess", {"taskToken": tokens[target], "output": json.dumps({"after": "the end"})})
        ctx.count("callbacks_sent")
        w.run(pol)
        w.advance(sim.w.orphan_retention_ms / 1000.0 + 2); w.run(pol)
        if len(w.notifications) != n_notes or len(afters()) != n_after:
            ctx.violation("callback-for-a-finished-task-had-an-effect", wit(dict()), None)
        for v in sim.notes.violations:
            ctx.violation(v["rule"], wit(dict(violation=v)), None)
        ctx.distinct("runs", [case, stream, len(w.trace)])
    finally:
        sim.close()


def token_sequence_case(ctx, k):
    """Several callback tasks one after the other in one execution, and a retried callback task: every entry into a callback task hands out
    a token of its own, and that token (no earlier one) completes it."""
    rng = ctx.rng("tokseq", k)
    layout = rng.choice(["sequence", "sequence", "retry"])
    sched = 0 if rng.random() < 0.3 else rng.randrange(1, 10 ** 6)
    case = dict(family="tokens", layout=layout, schedule=sched)
    ctx.evaluation(); ctx.count("family:tokens"); ctx.count("token_layout:" + layout); ctx.nontrivial(case)
    ctx.count("schedules:random" if sched else "schedules:canonical")
    sim = Sim(ctx, ctx.seed)
    try:
        w = sim.w
        handed = []

        def cb(wk, req):
            p = req["payload"]
            handed.append(p.get("token"))
            if layout == "retry" and len(handed) == 1:
                return {"errorType": "Cb.Error", "errorMessage": "first attempt fails"}
            return NOREPLY
        w.add_worker("cb", cb)

        def task(i, nxt):
            return {"Type": "Task", "Resource": "arn:aws:states:local::rpcmessage:invoke.waitForTaskToken",
                    "Parameters": {"FunctionName": FN + "cb", "Payload": {"token.$": "$$.Task.Token", "i": i}}, "ResultPath": "$.r%d" % i, "Next": nxt}
        n = rng.randint(2, 3) if layout == "sequence" else 1
        sts = {"T%d" % i: task(i, "T%d" % (i + 1) if i + 1 < n else "After") for i in range(n)}
        if layout == "retry":
            sts["T0"]["Retry"] = [{"ErrorEquals": ["Cb.Error"], "IntervalSeconds": 1, "MaxAttempts": 2}]
        sts["After"] = {"Type": "Task", "Resource": FN + "after", "End": True}
        parn = sim.machine("p", {"StartAt": "T0", "States": sts})
        pe = w.start_event(parn, "pe", {"x": 1})
        pol = sim.policy(sched)
        stream = []
        wit = lambda extra: sim.witness(dict(extra, case=case, stream=stream, handed=handed))
        entries = n + (1 if layout == "retry" else 0)
        outputs = []
        first = 1 if layout == "retry" else 0
        for j in range(first, entries):
            w.run(pol, until=lambda world: len(handed) > j)
            w.drain_instantaneous(pol)
            if len(handed) <= j or not isinstance(handed[j], str):
                ctx.violation("token-task-did-not-hand-out-a-token", wit(dict(entry=j)), None)
                return
            if handed[j] in handed[:j]:
                ctx.violation("callback-task-handed-out-an-earlier-tasks-token", wit(dict(entry=j)), None)
            if j > first and rng.random() < 0.5:
                # an earlier (finished) task's token must not complete this one
                w.api("SendTaskSuccess", {"taskToken": handed[j - 1], "output": json.dumps({"stale": j})})
                ctx.count("callbacks_sent")
                w.drain_instantaneous(pol)
            out = {"answer": j}
            outputs.append(out)
            code, body = w.api("SendTaskSuccess", {"taskToken": handed[j], "output": json.dumps(out)})
            ctx.count("callbacks_sent")
            stream.append([j, code])
            if code != 200:
                ctx.violation("valid-token-refused", wit(dict(entry=j, code=code, body=body)), None)
                return
            ctx.count("token_tasks_completed_by_callback")
        w.run(pol)
        st, out, err, t = w.outcome(pe)
        want = dict({"x": 1}, **{"r%d" % i: o for i, o in enumerate(outputs)})
        if st != "SUCCEEDED" or out != want:
            ctx.violation("callback-did-not-complete-exactly-its-task-with-the-supplied-output", wit(dict(status=st, error=err, output=out, expected=want)), None)
        ctx.distinct("runs", [case, len(w.trace)])
    finally:
        sim.close()


def token_restart_case(ctx, k):
    """The engine that owns a callback task is down while callbacks arrive (through another instance's front end); after its restart the
    FIRST accepted callback decides the task, whatever came later."""
    rng = ctx.rng("tokrestart", k)
    second = rng.choice(["success-other-output", "failure", "none"])
    sched = 0 if rng.random() < 0.3 else rng.randrange(1, 10 ** 6)
    case = dict(family="tokens", layout="restart", second_callback=second, schedule=sched)
    ctx.evaluation(); ctx.count("family:tokens"); ctx.count("token_layout:restart"); ctx.nontrivial(case)
    ctx.count("schedules:random" if sched else "schedules:canonical")
    w = World(seed=ctx.seed, instances=("i1",), store="redis")
    try:
        notes = NotificationMonitor(w)
        handed = []
        w.add_worker("cb", lambda wk, req: (handed.append(req["payload"].get("token")), NOREPLY)[1])
        w.add_worker("after", lambda wk, req: req["payload"])
        # (Pre: the Task's event must live in the owner's instance queue; the event of a Task that is the StartAt state is the start message
        # itself, in the shared queue, and would be redelivered to whichever instance is up - that is C04/C19 territory, not this property's)
        asl = {"StartAt": "Pre", "States": {"Pre": {"Type": "Pass", "Next": "T"}, "T": {"Type": "Task", "Resource": "arn:aws:states:local::rpcmessage:invoke.waitForTaskToken",
                                                "Parameters": {"FunctionName": FN + "cb", "Payload": {"token.$": "$$.Task.Token"}}, "ResultPath": "$.r", "Next": "After"},
                                          "After": {"Type": "Task", "Resource": FN + "after", "End": True}}}
        arn = w.create_machine("p", asl)
        pe = w.start_event(arn, "pe", {"x": 1})
        pol = canonical if sched == 0 else make_random(random.Random(sched))
        w.run(pol, until=lambda world: bool(handed))
        w.drain_instantaneous(pol)
        if not handed:
            ctx.inconclusive("token never handed out")
            return
        w.start_engine("i2")
        w.crash_engine("i1")
        stream = []
        code, body = w.api("SendTaskSuccess", {"taskToken": handed[0], "output": json.dumps({"answer": "first"})}, iid="i2")
        stream.append(["first", code]); ctx.count("callbacks_sent")
        if second == "success-other-output":
            code2, _ = w.api("SendTaskSuccess", {"taskToken": handed[0], "output": json.dumps({"answer": "second"})}, iid="i2"); stream.append(["second-success", code2]); ctx.count("callbacks_sent")
        elif second == "failure":
            code2, _ = w.api("SendTaskFailure", {"taskToken": handed[0], "error": "Late.Failure", "cause": "second"}, iid="i2"); stream.append(["second-failure", code2]); ctx.count("callbacks_sent")
        w.clock.now += rng.choice([0.0, 0.5, 2.0])
        e1 = w.start_engine("i1")
        registered = []          # broker-log positions at which the restarted engine (re-)registered a pending request

        class Recording(dict):
            def __setitem__(self, key, value):
                registered.append(len(w.broker.oplog))
                dict.__setitem__(self, key, value)
        e1.td.pending_requests = Recording(e1.td.pending_requests)
        w.run(pol)
        w.advance(w.orphan_retention_ms / 1000.0 + 2); w.run(pol)
        st, out, err, t = w.outcome(pe)
        ctx.count("token_tasks_completed_by_callback")
        wit = dict(case=case, stream=stream, status=st, output=out, error=err,
                   notifications=[(round(n["t"] - EPOCH0, 3), n["body"]["detail"]["status"], n["body"]["detail"].get("error")) for n in w.notifications],
                   schedule=[list(l) for l in w.trace[:120]])
        if code != 200:
            ctx.violation("valid-token-refused", wit, None)
        elif st != "SUCCEEDED" or not isinstance(out, dict) or out.get("r") != {"answer": "first"}:
            # listed mechanism: the first callback reached the restarted engine before the Task's redelivered event (so it was parked as an
            # orphan, to be matched by the periodic check) and the second one after it (so it was matched at once): the later callback overtakes
            restart_n = max([r["n"] for r in w.broker.oplog if r["op"] == "connection_open" and r["conn"] == "engine:i1"] or [0])
            cbs = [r["n"] for r in w.broker.oplog if r["n"] > restart_n and r["op"] == "deliver" and r["conn"] == "engine:i1" and r["queue"].startswith("asl_workflow_reply_to")
                   and str(r.get("correlation_id") or "").endswith(".waitForTaskToken")]
            seq = dict(callbacks_delivered_at=cbs, request_registered_at=registered[:1])
            overtaken = second != "none" and len(cbs) >= 2 and registered and cbs[0] < registered[0] <= cbs[1]
            ctx.violation("callback-after-restart-did-not-complete-the-task-with-the-first-accepted-output", dict(wit, deliveries_after_restart=seq),
                          "parked-callback-overtaken-by-a-later-one-after-restart" if overtaken else None)
        for v in notes.violations:
            if not (v["rule"] in ("N-duplicate-running",) and v.get("after_crash")):
                ctx.violation(v["rule"], dict(wit, violation=v), None)
        ctx.distinct("runs", [case, len(w.trace)])
    finally:
        w.close()


def run(ctx):
    i = 0
    for fam, n, fn in (("tokrestart", ctx.pick(40, 3000), token_restart_case), ("forms", ctx.pick(260, 24000), forms_case), ("cancel", ctx.pick(60, 5000), cancel_case), ("tokens", ctx.pick(200, 18000), token_case),
                       ("tokseq", ctx.pick(60, 5000), token_sequence_case)):
        for k in range(n):
            i += 1
            if ctx.mine(i):
                fn(ctx, k)


def witnesses(ctx):
    pass


def replay(ctx, doc):
    print(json.dumps(doc["witness"], indent=1, default=str)[:5000])
