"""Simulated Redis server + `redis` and `pottery` client modules (only the surface store.py uses)."""
import sys, types, json, threading, queue, fnmatch, itertools


class Server(object):
    def __init__(self, version="6.2.0", clock=None):
        self.version = version
        self.data = {}            # key(str) -> dict (hash) | list
        self.ttl = {}             # key -> seconds
        self.clients = {}         # client id -> Connection
        self.ids = itertools.count(1)
        self.tracking = {}        # tracked key -> set(client ids that read it)
        self.redirect = {}        # client id -> redirect client id
        self.pending_invalidations = []   # (target client id, [keys]) awaiting delivery by the harness
        self.subs = {}            # channel -> list of PubSub
        self.log = []
        self.dead_listeners = []  # listener threads that died because their handler raised

    # tracking -----------------------------------------------------------
    def note_read(self, cid, key):
        if cid in self.redirect:
            self.tracking.setdefault(key, set()).add(cid)

    def note_write(self, cid, key):
        readers = self.tracking.pop(key, set())
        for r in readers:
            self.pending_invalidations.append((self.redirect.get(r), [key]))

    def flushdb(self):
        """FLUSHDB/FLUSHALL by an operator: the keyspace and the tracking table are emptied and every client that has tracking enabled is sent ONE
        invalidation whose payload is null ("forget everything")."""
        self.data.clear(); self.ttl.clear(); self.tracking.clear()
        for target in sorted(set(self.redirect.values()), key=str):
            self.pending_invalidations.append((target, None))

    def deliver_invalidation(self, index=0):
        """Harness action: deliver one pending invalidation message and wait until it is handled."""
        target, keys = self.pending_invalidations.pop(index)
        for ps in list(self.subs.get("__redis__:invalidate", [])):
            if ps.client_id == target:
                ps.push({"type": "message", "pattern": None, "channel": b"__redis__:invalidate",
                         "data": None if keys is None else [k.encode() for k in keys]})

    def publish(self, channel, data):
        n = 0
        for ps in list(self.subs.get(channel, [])):
            ps.push({"type": "message", "pattern": None, "channel": channel.encode(), "data": data.encode() if isinstance(data, str) else data})
            n += 1
        return n


SERVERS = {}


class ConnectionPool(object):
    def __init__(self, server):
        self.server = server


class Redis(object):
    def __init__(self, connection_pool=None, server=None):
        self.connection_pool = connection_pool or ConnectionPool(server)
        self.server = self.connection_pool.server
        self.cid = next(self.server.ids)

    @classmethod
    def from_url(cls, url):
        host = url.split("://", 1)[1].split(":")[0].split("/")[0]
        return cls(server=SERVERS[host])

    # generic ----------------------------------------------------------------
    def ping(self): return True
    def info(self, section=None): return {"redis_version": self.server.version}
    def client_id(self): return self.cid
    def close(self): pass
    def execute_command(self, *args):
        args = [a.upper() if isinstance(a, str) else a for a in args]
        self.server.log.append((self.cid, args))
        if args[:3] == ["CLIENT", "TRACKING", "ON"]:
            self.server.redirect[self.cid] = args[4] if len(args) > 4 and args[3] == "REDIRECT" else self.cid
        elif args[:3] == ["CLIENT", "TRACKING", "OFF"]:
            self.server.redirect.pop(self.cid, None)
        return b"OK"
    def pubsub(self, ignore_subscribe_messages=False):
        return PubSub(self.server, next(self.server.ids) if False else self.cid, ignore_subscribe_messages)
    def publish(self, channel, data): return self.server.publish(channel, data)

    def delete(self, *keys):
        n = 0
        for k in keys:
            if k in self.server.data:
                del self.server.data[k]; self.server.ttl.pop(k, None); n += 1
            self.server.note_write(self.cid, k)
        return n
    def exists(self, *keys):
        for k in keys: self.server.note_read(self.cid, k)
        return sum(1 for k in keys if k in self.server.data)
    def expire(self, key, ttl):
        if key in self.server.data:
            self.server.ttl[key] = ttl; return True
        return False
    def scan(self, cursor=0, match=None, count=None):
        keys = sorted(k for k in self.server.data if match is None or fnmatch.fnmatchcase(k, match))
        c = int(cursor)
        page = keys[c:c + 2]                      # tiny pages so cursor loops are exercised
        nxt = c + 2 if c + 2 < len(keys) else 0
        return nxt, [k.encode() for k in page]

    # hashes -------------------------------------------------------------------
    def _h(self, key, create=False):
        v = self.server.data.get(key)
        if v is None and create:
            v = self.server.data[key] = {}
        if v is not None and not isinstance(v, dict):
            raise TypeError("WRONGTYPE")
        return v
    def hset(self, key, field=None, value=None, mapping=None):
        h = self._h(key, True)
        if field is not None: h[field] = value
        for f, v in (mapping or {}).items(): h[f] = v
        self.server.note_write(self.cid, key)
    def hget(self, key, field):
        self.server.note_read(self.cid, key)
        h = self._h(key); return None if h is None else h.get(field)
    def hgetall(self, key):
        self.server.note_read(self.cid, key)
        return dict(self._h(key) or {})
    def hdel(self, key, *fields):
        h = self._h(key); n = 0
        for f in fields:
            if h and f in h: del h[f]; n += 1
        if h is not None and not h: del self.server.data[key]
        self.server.note_write(self.cid, key); return n
    def hlen(self, key):
        self.server.note_read(self.cid, key); return len(self._h(key) or {})
    def hexists(self, key, field):
        self.server.note_read(self.cid, key); return field in (self._h(key) or {})

    # lists --------------------------------------------------------------------
    def _l(self, key, create=False):
        v = self.server.data.get(key)
        if v is None and create:
            v = self.server.data[key] = []
        if v is not None and not isinstance(v, list):
            raise TypeError("WRONGTYPE")
        return v
    def rpush(self, key, *values):
        l = self._l(key, True); l.extend(values); self.server.note_write(self.cid, key); return len(l)
    def lrange(self, key, start, stop):
        self.server.note_read(self.cid, key)
        l = self._l(key) or []
        stop = len(l) if stop == -1 else stop + 1
        return list(l[start:stop])
    def llen(self, key):
        self.server.note_read(self.cid, key); return len(self._l(key) or [])
    def lindex(self, key, i):
        self.server.note_read(self.cid, key)
        l = self._l(key) or []
        try: return l[i]
        except IndexError: return None
    def lset(self, key, i, v):
        self._l(key)[i] = v; self.server.note_write(self.cid, key)


class PubSub(object):
    def __init__(self, server, client_id, ignore_subscribe_messages):
        self.server, self.client_id = server, client_id
        self.handlers = {}
        self.q = queue.Queue()
        self.handled = threading.Semaphore(0)
        self.dead, self.died_of, self.unread = False, None, []

    def subscribe(self, *channels, **handlers):
        for ch in channels:
            self.handlers[ch] = None
            self.server.subs.setdefault(ch, [])
            if self not in self.server.subs[ch]: self.server.subs[ch].append(self)
        for ch, h in handlers.items():
            self.handlers[ch] = h
            self.server.subs.setdefault(ch, [])
            if self not in self.server.subs[ch]: self.server.subs[ch].append(self)

    def push(self, message):
        """Called from the harness thread: hand the message to the listener thread and wait until it was handled.
        If the listener thread has died (its handler raised) the message is simply never read, as with a real server."""
        if self.dead:
            self.unread.append(message)
            return
        self.q.put(message)
        if not self.handled.acquire(timeout=20):
            raise RuntimeError("simulated redis: pubsub listener did not handle a message within 20 s (harness problem)")

    def listen(self):
        while True:
            m = self.q.get()
            ch = m["channel"].decode() if isinstance(m["channel"], bytes) else m["channel"]
            h = self.handlers.get(ch)
            if h is not None:
                try:
                    h(m)
                except BaseException as e:
                    self.dead = True
                    self.died_of = "%s: %s" % (type(e).__name__, e)
                    self.server.dead_listeners.append(dict(client=self.client_id, error=self.died_of, message=repr(m)[:200]))
                    self.handled.release()
                    raise
                self.handled.release()
            else:
                self.handled.release()
                try:
                    yield m
                except GeneratorExit:      # the consumer stopped listening (store.stop())
                    self.dead = True
                    self.died_of = "listener stopped"
                    raise


# ----------------------------------------------------------------------------- pottery
class KeyExistsError(Exception):
    pass


class RedisDict(object):
    def __init__(self, arg=None, *, redis=None, key=None, **kwargs):
        self.redis, self.key = redis, key
        data = dict(arg or {}, **kwargs)
        if data:
            if self.redis.exists(self.key):
                raise KeyExistsError(self.key)
            self.redis.hset(self.key, mapping={json.dumps(k): json.dumps(v) for k, v in data.items()})
    def __getitem__(self, k):
        v = self.redis.hget(self.key, json.dumps(k))
        if v is None: raise KeyError(k)
        return json.loads(v)
    def __setitem__(self, k, v): self.redis.hset(self.key, json.dumps(k), json.dumps(v))
    def __delitem__(self, k):
        if not self.redis.hdel(self.key, json.dumps(k)): raise KeyError(k)
    def __iter__(self): return iter([json.loads(k) for k in self.redis.hgetall(self.key)])
    def __len__(self): return self.redis.hlen(self.key)
    def __contains__(self, k): return self.redis.hexists(self.key, json.dumps(k))
    def keys(self): return list(iter(self))
    def items(self): return [(json.loads(k), json.loads(v)) for k, v in self.redis.hgetall(self.key).items()]
    def values(self): return [v for _, v in self.items()]
    def get(self, k, default=None):
        try: return self[k]
        except KeyError: return default
    def update(self, other):
        for k, v in dict(other).items(): self[k] = v
    def __eq__(self, other):
        try: return dict(self.items()) == dict(other)
        except Exception: return NotImplemented
    def __repr__(self): return "RedisDict%r" % (dict(self.items()),)

import collections.abc
collections.abc.MutableMapping.register(RedisDict)


class RedisList(object):
    def __init__(self, iterable=(), *, redis=None, key=None):
        self.redis, self.key = redis, key
        items = list(iterable)
        if items:
            if self.redis.exists(self.key):
                raise KeyExistsError(self.key)
            self.redis.rpush(self.key, *[json.dumps(v) for v in items])
    def __len__(self): return self.redis.llen(self.key)
    def __getitem__(self, i):
        if isinstance(i, slice):
            return [json.loads(v) for v in self.redis.lrange(self.key, 0, -1)][i]
        v = self.redis.lindex(self.key, i)
        if v is None: raise IndexError(i)
        return json.loads(v)
    def __setitem__(self, i, v): self.redis.lset(self.key, i, json.dumps(v))
    def __iter__(self): return iter([json.loads(v) for v in self.redis.lrange(self.key, 0, -1)])
    def append(self, v): self.redis.rpush(self.key, json.dumps(v))
    def __eq__(self, other):
        try: return list(self) == list(other)
        except Exception: return NotImplemented
    def __repr__(self): return "RedisList%r" % (list(self),)

collections.abc.MutableSequence.register(RedisList)


def install():
    r = types.ModuleType("redis"); r.Redis = Redis
    p = types.ModuleType("pottery"); p.RedisDict, p.RedisList, p.KeyExistsError = RedisDict, RedisList, KeyExistsError
    sys.modules["redis"], sys.modules["pottery"] = r, p
