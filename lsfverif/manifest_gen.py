"""Regenerates MANIFEST.json from the check modules' own metadata (run: ./check --manifest)."""
import json, os, importlib
from lsfverif.core import ROOT, setup_paths

NOT_BUILT = "check not built yet (build in progress)"


def generate():
    setup_paths()
    props = [json.loads(l) for l in open(os.path.join(ROOT, "properties.jsonl"))]
    checks, na = [], []
    for p in props:
        pid = p["id"]
        try:
            mod = importlib.import_module("lsfverif.checks." + pid.lower())
        except ModuleNotFoundError:
            na.append(dict(property_id=pid, reason=NOT_BUILT))
            continue
        if getattr(mod, "NOT_APPLICABLE", None):
            na.append(dict(property_id=pid, reason=mod.NOT_APPLICABLE))
            continue
        c = dict(property_id=pid, quick_cmd="./check %s --tier quick" % pid, thorough_cmd="./check %s --tier thorough" % pid,
                 evidence_file="evidence/%s.json" % pid, replay_cmd_template="./check %s --replay {path}" % pid,
                 engine=getattr(mod, "ENGINE", "simworld"),
                 level_claimed=dict(category=mod.LEVEL, text=mod.LEVEL_TEXT, design_ref=getattr(mod, "DESIGN_REF", "DESIGN.md section 6")),
                 level_note=mod.LEVEL_NOTE, technique=mod.TECHNIQUE)
        checks.append(c)
    m = dict(version=1, setup_cmd="./setup.sh",
             hooks=dict(guard="LSF_VERIF_HOOKS",
                        enable="no source hooks are needed: all interposition is external (fake pika/redis/pottery modules in sys.modules, module-attribute clock "
                               "replacement, monitors on the simulated broker); checks import /repo/asl-workflow-engine/py from the working tree at run time",
                        baseline_off_cmd="cd /repo && /venv/bin/python -m pytest -ra -q -p no:cacheprovider --timeout=900 --continue-on-collection-errors",
                        source_commits=[], add_only=True),
             engines=[dict(name="simworld", path="lsfverif/sim", serves_properties=[c["property_id"] for c in checks if c["engine"] == "simworld"],
                           kind_free_text="real StateEngine/TaskDispatcher/EventDispatcher/messaging/REST code on a simulated pika broker, virtual clock and simulated Redis; every delivery, reply, timer and crash is a scheduler action"),
                      dict(name="mini", path="lsfverif/sim/mini.py", serves_properties=[c["property_id"] for c in checks if c["engine"] == "mini"],
                           kind_free_text="real StateEngine with an in-process FIFO dispatcher for input-quantified properties"),
                      dict(name="refmodels", path="lsfverif/ref", serves_properties=[c["property_id"] for c in checks],
                           kind_free_text="small executable reference models written from the States Language text, used as oracles beside the real code"),
                      dict(name="monitors", path="lsfverif/mon", serves_properties=[c["property_id"] for c in checks if c["engine"] == "simworld"],
                           kind_free_text="online monitors on broker operations, notifications, records and histories")],
             checks=checks, not_applicable=na,
             notes="Runtime monitoring of the real code under generated workloads, schedules, faults and crashes; see DESIGN.md. Exit codes: 0 held, 1 VIOLATION, 2 INCONCLUSIVE. Known findings: known_findings.json (listed by mechanism, per property; each check prints one KNOWN-FINDING line per "
                   "finding listed for its property; 'fixed' and 'withdrawn' entries suppress nothing). Seeded changes used to test the checks: seeded/<id>/<change>/ and "
                   "seeded/matrix.json (DESIGN.md sections 7 and 10.6).")
    with open(os.path.join(ROOT, "MANIFEST.json"), "w") as f:
        json.dump(m, f, indent=1)
    return m
