"""
C04  In-progress executions survive an engine crash and restart.

(i)  crash BETWEEN two scheduler steps at every point of every baseline run, restart with the same instance id through the real
     start-up path (the broker requeues what was unacknowledged, redelivered=True): the terminal status/output/error must equal the
     crash-free run's, no worker may see a correlation id twice, and a reply around the restart must reach its task;
(iii) two instances consume the shared queue (shared Redis store); either of them dies at every between-step point and is restarted with its own
     instance id: same oracle; a crash of the instance that holds nothing must change nothing.
(ii) crash INSIDE a handler right after its k-th broker operation (the fake channel raises a BaseException that passes through the
     engine's catch-alls): every started execution must still reach a terminal status once the world is quiescent and virtual time
     has passed its time-out plus the back-stop period.
"""
import json, copy, random
from lsfverif.gen import families as F, machines as G
from lsfverif.mon import scenario as S, classify as C
from lsfverif.sim.world import EPOCH0, EngineCrash, EVENTQ, REPLYQ
from lsfverif.sim.world import make_random
from lsfverif.checks import _sched

ID = "C04"
ENGINE = "simworld"
LEVEL = "fault_enumeration"
RULE = ("case = (scenario, crash point, schedule after the restart): scenarios = sequential Pass/Task/Wait/Choice chains, Parallel and Map with Task/Wait branches, Retry in "
        "back-off, synchronous child execution; JSON-file store (records lost) and simulated Redis (records kept); EVERY between-step crash point of the baseline run and "
        "EVERY engine broker operation as an intra-handler crash point; canonical and random schedules after the restart; the same with two instances on the shared queue of which either dies. non-trivial = "
        "crash point at which >=1 message is unacknowledged or >=1 request is outstanding; distinct by (scenario, crash point, schedule hash)")
ASSUMPTIONS = ["a duplicated RUNNING notification after a crash, lost history (JSON store) and the re-created record's input/startDate are not part of the statement",
               "intra-handler crashes are judged for no-loss only", "the broker requeues unacknowledged messages at the head in original order with redelivered=True"]
FLOORS = {"transport:blocking": 100, "crash_points_with_two_instances": 300, "two_instances:crashed_instance_held_something": 50, "evaluations": 500, "crash_points_between_steps": 250, "crash_points_inside_handlers": 200, "nontrivial": 300, "baselines": 12, "store:redis": 100, "outcomes_compared": 250}
SHARDS = {"quick": 16, "thorough": 16}
TECHNIQUE = "crash-point enumeration with differential oracle against the crash-free run + bounded-progress monitor + worker request log"
LEVEL_TEXT = ("Every between-step crash point and every engine broker operation of each baseline run is turned into a crash + restart through the real start-up path; outcome "
              "preservation, request exactly-once and bounded termination are checked for each; the between-step enumeration is repeated with two instances on the shared queue of which either dies. Held = every crash point preserved the "
              "outcome / lost nothing, up to the listed findings (recovery mechanisms keyed on the redelivered flag, the termination protocol's early acknowledgements and the "
              "take-over of a shared-queue event by another instance).")
LEVEL_NOTE = "crash = loss of all volatile engine state and timers + connection drop; what survives is what the broker and the configured store keep"
DESIGN_REF = "DESIGN.md section 6, C04"

P, T, W = F.P, F.T, F.W


def corpus(rng, n):
    out = []
    fixed = [
        ("seq-task-wait", F.chain([("A", P()), ("B", T("echo")), ("Wt", W(5)), ("C", T("echo", ResultPath="$.c"))])),
        ("seq-choice", {"StartAt": "A", "States": {"A": T("echo", Next="Ch"), "Ch": {"Type": "Choice", "Choices": [{"Variable": "$.x", "NumericEquals": 1, "Next": "Y"}], "Default": "N"},
                                                   "Y": W(2, Next="Z"), "N": P(End=True), "Z": T("wrap", End=True)}}),
        ("parallel", F.chain([("Par", {"Type": "Parallel", "Branches": [F.chain([("T0", T("echo"))]), F.chain([("T1", T("echo")), ("V1", W(3))])]}), ("Z", P())])),
        ("parallel-end", F.chain([("Par", {"Type": "Parallel", "Branches": [F.chain([("T0", T("echo"))]), F.chain([("T1", T("slow3"))])]})])),
        ("parallel-succeed-state", F.chain([("Par", {"Type": "Parallel", "Branches": [F.chain([("Q0", P()), ("Q1", {"Type": "Succeed"})]), F.chain([("V0", W(3)), ("V1", T("echo"))])]}),
                                            ("Z", T("echo"))])),
        ("map", F.chain([("M", {"Type": "Map", "ItemsPath": "$.items", "MaxConcurrency": 2, "ItemProcessor": F.chain([("I1", T("wrap")), ("I2", W(1))])}), ("Z", T("echo"))])),
        ("retry-backoff", F.chain([("A", T("flaky", Retry=[{"ErrorEquals": ["Flaky"], "IntervalSeconds": 3, "MaxAttempts": 2}])), ("B", P())])),
        ("catch", {"StartAt": "A", "States": {"A": T("boom", Catch=[{"ErrorEquals": ["States.ALL"], "Next": "R", "ResultPath": "$.e"}], Next="R"), "R": T("echo", End=True)}}),
        ("fail", F.chain([("A", T("echo")), ("B", T("boom"))])),
        ("wait-first", F.chain([("Wt", W(4)), ("A", T("echo"))])),
        ("slow-task", F.chain([("A", T("slow3")), ("B", P())])),
    ]
    for name, asl in fixed:
        out.append((name, asl, None))
    # synchronous child
    child = F.chain([("C1", T("echo")), ("C2", W(2))])
    parent = {"StartAt": "L", "States": {"L": {"Type": "Task", "Resource": "arn:aws:states:local:0123456789:states:startExecution.sync:2",
                                               "Parameters": {"StateMachineArn": "arn:aws:states:local:0123456789:stateMachine:child", "Input.$": "$", "Name": "kid"}, "Next": "Z"},
                                         "Z": P(End=True)}}
    out.append(("sync-child", parent, child))
    for k in range(max(0, n - len(out))):
        asl, funcs, meta = F.sequential(rng) if k % 2 else F.fanout_machine(rng, fail="none", depth=0)
        out.append(("gen-%d" % k, asl, None))
    return out[:max(n, len(fixed) + 1)] if n >= len(fixed) + 1 else out[:n]


FUNCS = dict(F.FUNCS, flaky=["flaky", ["Flaky"]])


def make_scn(asl, child, store):
    """store: 'json' | 'redis' | 'json+blocking' (the blocking pika transport instead of the asyncio one)"""
    machines = {"m": {"asl": asl}}
    if child:
        machines["child"] = {"asl": child}
    return {"machines": machines, "funcs": dict(FUNCS), "starts": [{"machine": "m", "name": "e", "input": {"x": 1, "items": F.items(3, depth=0)}}],
            "config": {"store": store} if store == "redis" else {"transport": "blocking"} if store == "json+blocking" else {}}


def signature(run):
    """What must be preserved: per execution (status, output, error name) of the FIRST terminal notification."""
    w = run.world
    out = {}
    for arn in sorted(run.notes.status):
        st, o, err, t = w.outcome(arn)
        out[arn.rsplit(":", 1)[1]] = [st, mask_cause(o), err]
    return out


def mask_cause(x):
    """Cause texts quote history event ids; with the non-persistent store the history is lost by a crash (not part of the statement)."""
    if isinstance(x, dict):
        # (the start/stop dates of a child execution legitimately move with the time the engine was down)
        return {k: ("<cause>" if k in ("Cause", "cause") and isinstance(v, str) else "<date>" if k in ("StartDate", "StopDate", "startDate", "stopDate") and isinstance(v, (int, float))
                    else mask_cause(v)) for k, v in x.items()}
    if isinstance(x, list):
        return [mask_cause(v) for v in x]
    return x


def crash_hook(k, restart_delay=0.0, iid="i1"):
    """Crash + restart between steps: after the k-th scheduler step (k = 0: before the first)."""
    def install(run):
        w = run.world
        state = {"n": 0, "done": False, "facts": None}

        def do_crash():
            state["done"] = True
            eng = w.engines[iid]
            state["facts"] = dict(instance=iid, unacked=sum(len(ch.unacked) for ch in eng.conn.channels), pending=len(eng.td.pending_requests),
                                  timers=[getattr(t.cb, "__qualname__", "?") for t in eng.conn.timers if not w.is_housekeeping(t)],
                                  unacked_msgs=[dict(mid=m.props.message_id, q=qn) for ch in eng.conn.channels for (qn, m) in ch.unacked.values()])
            w.crash_engine(iid)
            if restart_delay:
                w.clock.now += restart_delay
            w.start_engine(iid)
        run.crash_state = state
        if k == 0:
            do_crash()

        def on_step(world, act):
            state["n"] += 1
            if not state["done"] and state["n"] == k:
                do_crash()
        w.step_hooks.append(on_step)
    return install


def op_crash_hook(j):
    """Crash inside a handler: right after the j-th engine basic_publish/basic_ack took effect."""
    def install(run):
        w = run.world
        state = {"n": 0, "done": False, "op": None}
        run.crash_state = state

        def failpoint(rec):
            if state["done"] or not (rec["conn"] or "").startswith("engine:") or rec["op"] not in ("basic_publish", "basic_ack"):
                return
            state["n"] += 1
            if state["n"] == j:
                state["done"] = True
                state["op"] = dict(op=rec["op"], rk=rec.get("routing_key"), queue=rec.get("queue"), step=rec["step"], n=rec["n"], exchange=rec.get("exchange"))
                raise EngineCrash("i1")
        w.broker.failpoint = failpoint
    return install


def classify_between(run, base, sig, inside=False):
    """Listed recovery mechanisms, decided from the trace.  inside: the crash happened within the handler of its step (that step's own
    deliveries are then not 'completed before the crash')."""
    w = run.world
    crash_step = w.crashes[0]["step"] if w.crashes else None
    ops = w.broker.oplog
    crash_n = next((r["n"] for r in ops if r["step"] > crash_step), len(ops)) if crash_step is not None else len(ops)
    before, after = ops[:crash_n], ops[crash_n:]
    delivered_before = {r["message_id"]: r for r in before if r["op"] == "deliver" and (r["conn"] or "").startswith("engine:") and (r["queue"] or "").startswith(EVENTQ)}
    acked_before = {r["message_id"] for r in before if r["op"] == "basic_ack" and (r.get("queue") or "").startswith(EVENTQ)}
    requested_before = {C_base(r["props"]["correlation_id"]) for r in before if r["op"] == "basic_publish" and r["props"].get("reply_to") and (r["conn"] or "").startswith("engine:")}
    replied_before = {C_base(r["correlation_id"]) for r in before if r["op"] == "deliver" and (r["queue"] or "").startswith(REPLYQ)}
    redelivered = {r["message_id"] for r in after if r["op"] == "deliver" and r.get("redelivered") and (r["queue"] or "").startswith(EVENTQ)}
    requested_after = {C_base(r["props"]["correlation_id"]) for r in after if r["op"] == "basic_publish" and r["props"].get("reply_to") and (r["conn"] or "").startswith("engine:")}
    # which redelivered events are Task-state events?
    task_events, branch_events = set(), set()
    for r in ops:
        if r["op"] == "basic_publish" and r.get("exchange") == "" and (r.get("routing_key") or "").startswith(EVENTQ):
            try:
                ev = json.loads(r["body"])
                name = ev["context"]["State"]["Name"]
            except Exception:
                continue
            mid = r["props"].get("message_id")
            task_events.add(mid)
            if "Branch" in ev["context"]["State"]:
                branch_events.add(mid)
    for mid in redelivered:
        if mid in delivered_before and mid not in acked_before:
            if mid not in requested_before and mid not in requested_after:
                # delivered, its deferred delegate had not run yet (no request sent); after the restart the event is flagged
                # redelivered, so the engine only waits for a reply to a request that was never made
                return "redelivered-before-request-sent"
            if mid in requested_before and mid in replied_before and mid in branch_events:
                # the reply was consumed before the crash but the event was still held unacknowledged BY DESIGN (the terminal event of a
                # branch is held until the join): redelivered, the engine waits for a reply that will not come again.  An event outside
                # any branch is never held after its reply was handled, so losing its reply is not this finding.
                return "held-event-redelivered-after-its-reply-was-consumed"
    stuck = [k for k, v in sig.items() if v[0] == "NONE" or v[2] == "States.Timeout"]
    if stuck and any(r["op"] == "deliver" and (r["queue"] or "").startswith(REPLYQ) for r in after):
        replies_after = [r for r in after if r["op"] == "deliver" and (r["queue"] or "").startswith(REPLYQ)]
        first_redelivery = next((r["n"] for r in after if r["op"] == "deliver" and r.get("redelivered")), None)
        if replies_after and (first_redelivery is None or replies_after[0]["n"] < first_redelivery):
            return "orphan-reply-rematched-only-on-next-dispatch"
    return None


def taken_over(run):
    """Events of the SHARED queue that were delivered to one instance, left unacknowledged by its death and redelivered to ANOTHER instance:
    -> [(message id, first instance, second instance, request already sent by the first one?)]"""
    w = run.world
    crash_step = w.crashes[0]["step"] if w.crashes else None
    if crash_step is None:
        return []
    first, requested, out = {}, set(), []
    for r in w.broker.oplog:
        conn = r["conn"] or ""
        if r["op"] == "basic_publish" and conn.startswith("engine:") and r["props"].get("reply_to") and r["step"] <= crash_step:
            requested.add(C_base(r["props"]["correlation_id"]))
        if r["op"] == "deliver" and conn.startswith("engine:") and r["queue"] == EVENTQ:
            mid = r.get("message_id")
            if mid in first and first[mid] != conn and r.get("redelivered"):
                out.append((mid, first[mid], conn, mid in requested))
            first.setdefault(mid, conn)
    return out


BASE_REQS = {}


def request_multiset(run):
    """(function, payload) -> how often it was requested"""
    c = {}
    for fn, rs in run.requests.items():
        for r in rs:
            k = (fn, json.dumps(mask_cause(r["payload"]), sort_keys=True, default=repr))       # (Cause texts quote history event ids, which a restart may renumber)
            c[k] = c.get(k, 0) + 1
    return c


def map_batch_relaunched(run):
    """The listed batch finding, read off the broker log: the event that re-enters a Map state for its next MaxConcurrency batch (State.Name = the Map,
    innermost Branch entry with a Range and no Index) was published before the crash and is published AGAIN, for the same Range, after it."""
    w = run.world
    crash_step = w.crashes[0]["step"] if w.crashes else None
    if crash_step is None:
        return False
    before, after = set(), set()
    for r in w.broker.oplog:
        if r["op"] == "basic_publish" and (r["conn"] or "").startswith("engine:") and r.get("exchange") == "" and (r.get("routing_key") or "").startswith(EVENTQ):
            try:
                st = json.loads(r["body"])["context"]["State"]
                br = (st.get("Branch") or [])[-1]
            except Exception:
                continue
            if br.get("Range") and br.get("Index") is None:
                (before if r["step"] <= crash_step else after).add((st.get("Name"), br["Range"], len(st["Branch"])))
    return bool(before & after)


def C_base(cid):
    for suf in (".waitForTaskToken", ".invoke"):
        if cid and cid.endswith(suf):
            return cid[:-len(suf)]
    return cid


def run(ctx):
    n_scn = ctx.pick(16, 150)
    stores = ["json", "redis", "json+blocking"]
    i = 0
    for si, (name, asl, child) in enumerate(corpus(ctx.rng("corpus"), n_scn)):
        for store in stores:
            if store == "redis" and si % 3 and ctx.quick:
                continue
            if store == "json+blocking" and (si + 1) % 3 and ctx.quick:
                continue
            i += 1
            scn = make_scn(asl, child, store)
            base = S.execute(scn, seed=ctx.seed)
            try:
                base_sig, n_steps = signature(base), len(base.world.steps)
                BASE_REQS[(name, store)] = request_multiset(base)
                n_ops = sum(1 for r in base.world.broker.oplog if (r["conn"] or "").startswith("engine:") and r["op"] in ("basic_publish", "basic_ack")
                            and r["step"] > 0)
                base_ok = not base.error and all(v[0] in ("SUCCEEDED", "FAILED") for v in base_sig.values())
            finally:
                S.close(base)
            if ctx.mine(i):
                ctx.count("baselines")
            if not base_ok:
                continue
            # (i) between steps
            for k in range(0, n_steps + 1):
                for s in range(ctx.pick(1, 4)):
                    i += 1
                    if not ctx.mine(i):
                        continue
                    between(ctx, scn, name, store, k, s, base_sig)
            # (ii) inside handlers
            for j in range(1, n_ops + 1):
                i += 1
                if not ctx.mine(i):
                    continue
                inside(ctx, scn, name, store, j, base_sig)
    # (iii) two instances on the shared queue, either of them dies
    for si, (name, asl, child) in enumerate(corpus(ctx.rng("corpus"), n_scn)):
        scn = make_scn(asl, child, "redis")
        scn["config"] = dict(scn["config"], instances=["i1", "i2"])
        base = S.execute(scn, seed=ctx.seed)
        try:
            base_sig, n_steps = signature(base), len(base.world.steps)
            base_ok = not base.error and all(v[0] in ("SUCCEEDED", "FAILED") for v in base_sig.values())
        finally:
            S.close(base)
        if not base_ok:
            continue
        for k in range(0, n_steps + 1):
            for iid in ("i1", "i2"):
                for s in range(ctx.pick(1, 3)):
                    i += 1
                    if ctx.mine(i):
                        two_instances(ctx, scn, name, k, s, iid, base_sig)


def between(ctx, scn, name, store, k, s, base_sig):
    pol = None if s == 0 else (lambda w, r=random.Random("%s-%d-%d" % (name, k, s)): make_random(r))
    run = S.execute(scn, policy=pol, seed=ctx.seed, hooks=[crash_hook(k, restart_delay=[0.0, 0.5, 2.0][s % 3])])
    try:
        ctx.evaluation(); ctx.count("crash_points_between_steps"); ctx.count("store:" + store.split("+")[0]); ctx.count("transport:" + ("blocking" if "blocking" in store else "asyncio"))
        facts = run.crash_state.get("facts") or {}
        key = [name, store, "between", k, _sched.schedule_hash(run)]
        ctx.distinct("schedules", key)
        if facts.get("unacked") or facts.get("pending"):
            ctx.nontrivial(key)
        sig = signature(run)
        ctx.count("outcomes_compared")
        wit = lambda extra: S.witness_of(run, dict(extra, scenario_name=name, store=store, crash_after_step=k, schedule_no=s, baseline=base_sig, with_crash=sig, crash_facts=facts))
        if run.error:
            ctx.violation("exception-escaped-the-engine-after-restart", wit({}), None)
        if sig != base_sig:
            lost = [x for x, v in sig.items() if v[0] == "NONE"] + [x for x in base_sig if x not in sig]
            ctx.violation("execution-lost-after-crash" if lost else "outcome-differs-from-crash-free-run", wit({}), classify_between(run, base_sig, sig))
        # request exactly-once at the workers
        seen = {}
        for fn, rs in run.requests.items():
            for r in rs:
                seen[r["cid"]] = seen.get(r["cid"], 0) + 1
        dup = {c: n for c, n in seen.items() if n > 1}
        if dup:
            ctx.violation("task-requested-again-after-restart", wit(dict(duplicates=dup)), None)
        # ... and the same invocation (function, payload) under a NEW correlation id: more requests than the crash-free run makes
        base_reqs = BASE_REQS.get((name, store))
        if base_reqs is not None and sig == base_sig and not dup:
            more = {"%s(%s)" % (fn, p[:80]): [n, base_reqs.get((fn, p), 0)] for (fn, p), n in request_multiset(run).items() if n > base_reqs.get((fn, p), 0)}
            ctx.count("request_multisets_compared")
            if more:
                ctx.violation("task-requested-again-after-restart", wit(dict(requested_more_often_than_without_the_crash=more)),
                              "map-batch-relaunched-after-restart" if map_batch_relaunched(run) else None)
        for arn in getattr(run, "never_terminated", []) or []:
            ctx.violation("execution-never-terminates-after-crash", wit(dict(arn=arn)), classify_between(run, base_sig, sig))
        if ctx.counters["evaluations"] % 97 == 1:
            ctx.sample(dict(scenario=name, store=store, crash_after_step=k, crash_facts=facts, baseline=base_sig, with_crash=sig))
    finally:
        S.close(run)


def two_instances(ctx, scn, name, k, s, iid, base_sig):
    """Two instances on the shared queue (shared Redis store), one of them dies and is restarted with its own instance id.  A crash of the
    instance that holds nothing of the execution must change nothing at all; a crash of the owner must preserve the outcome."""
    pol = None if s == 0 else (lambda w, r=random.Random("2i-%s-%d-%d" % (name, k, s)): make_random(r))
    run = S.execute(scn, policy=pol, seed=ctx.seed, hooks=[crash_hook(k, restart_delay=[0.0, 0.5, 2.0][s % 3], iid=iid)])
    try:
        ctx.evaluation(); ctx.count("crash_points_with_two_instances"); ctx.count("store:redis")
        facts = run.crash_state.get("facts") or {}
        key = [name, "two-instances", iid, k, _sched.schedule_hash(run)]
        ctx.distinct("schedules", key)
        held = bool(facts.get("unacked") or facts.get("pending"))
        ctx.count("two_instances:crashed_instance_held_something" if held else "two_instances:crashed_instance_held_nothing")
        if held:
            ctx.nontrivial(key)
        sig = signature(run)
        ctx.count("outcomes_compared")
        over = taken_over(run)
        if over:
            ctx.count("two_instances:shared_queue_event_taken_over_by_the_other_instance")
        wit = lambda extra: S.witness_of(run, dict(extra, scenario_name=name, store="redis", instances=["i1", "i2"], crashed=iid, crash_after_step=k, schedule_no=s, baseline=base_sig,
                                                   with_crash=sig, crash_facts=facts, taken_over=over))
        if run.error:
            ctx.violation("exception-escaped-the-engine-after-restart", wit({}), None)
        if sig != base_sig:
            mech = None
            if any(sent for (_, _, _, sent) in over) and all(v[0] == "NONE" or v[2] == "States.Timeout" or v == base_sig.get(x) for x, v in sig.items()):
                # the request went out with the dead instance's reply queue; the instance that took the event over waits for a reply that is
                # routed to the other one
                mech = "shared-queue-event-taken-over-by-another-instance-after-its-request-was-sent"
            elif held:
                mech = classify_between(run, base_sig, sig)
            lost = [x for x, v in sig.items() if v[0] == "NONE"] + [x for x in base_sig if x not in sig]
            ctx.violation("execution-lost-after-crash" if lost else "outcome-differs-from-crash-free-run", wit({}), mech)
        seen = {}
        for fn, rs in run.requests.items():
            for r in rs:
                seen[r["cid"]] = seen.get(r["cid"], 0) + 1
        dup = {c: n for c, n in seen.items() if n > 1}
        if dup:
            ctx.violation("task-requested-again-after-restart", wit(dict(duplicates=dup)), None)
        for arn in getattr(run, "never_terminated", []) or []:
            ctx.violation("execution-never-terminates-after-crash", wit(dict(arn=arn)), None)
    finally:
        S.close(run)


def inside(ctx, scn, name, store, j, base_sig):
    run = S.execute(scn, seed=ctx.seed, hooks=[op_crash_hook(j)])
    try:
        ctx.evaluation(); ctx.count("crash_points_inside_handlers"); ctx.count("store:" + store.split("+")[0]); ctx.count("transport:" + ("blocking" if "blocking" in store else "asyncio"))
        op = run.crash_state.get("op")
        key = [name, store, "inside", j]
        ctx.distinct("schedules", key)
        ctx.nontrivial(key)
        sig = signature(run)
        wit = lambda extra: S.witness_of(run, dict(extra, scenario_name=name, store=store, crash_after_engine_op=j, op=op, baseline=base_sig, with_crash=sig))
        started = set(base_sig)
        lost = [x for x in started if sig.get(x, ["NONE"])[0] == "NONE"]
        if lost:
            # which mechanism?  the crash fell between the acknowledgements of the termination protocol and the terminal publish
            mech = classify_between(run, base_sig, sig, inside=True)
            if mech is None and op and op["op"] == "basic_ack" and str(op.get("queue") or "").startswith(EVENTQ):
                # (the listed finding is about held *event* messages; losing a reply acknowledged before its consequence is something else)
                mech = "termination-acks-held-events-before-consequence"
            ctx.violation("execution-silently-lost-by-crash-inside-handler", wit(dict(lost=lost)), mech)
        elif any(sig.get(x) != base_sig[x] for x in started):
            ctx.count("inside_handler_outcome_changed")
            ctx.violation("outcome-differs-from-crash-free-run-after-crash-inside-handler", wit(dict(changed=[x for x in started if sig.get(x) != base_sig[x]])),
                          classify_between(run, base_sig, sig, inside=True))
        for arn in getattr(run, "never_terminated", []) or []:
            if arn.rsplit(":", 1)[1] not in lost:
                ctx.violation("execution-never-terminates-after-crash", wit(dict(arn=arn)), None)
        if ctx.counters["evaluations"] % 97 == 1:
            ctx.sample(dict(scenario=name, store=store, crash_after_engine_op=j, op=op, with_crash=sig))
    finally:
        S.close(run)


def witnesses(ctx):
    pass


def replay(ctx, doc):
    w = doc["witness"]
    print(json.dumps({k: w.get(k) for k in ("scenario_name", "store", "crash_after_step", "crash_after_engine_op", "op", "baseline", "with_crash", "crash_facts")}, indent=1))
    if w.get("instances"):
        two_instances(ctx, w["scenario"], w["scenario_name"], w["crash_after_step"], w.get("schedule_no", 0), w["crashed"], w["baseline"])
    elif "crash_after_step" in w:
        between(ctx, w["scenario"], w["scenario_name"], w["store"], w["crash_after_step"], w.get("schedule_no", 0), w["baseline"])
    else:
        inside(ctx, w["scenario"], w["scenario_name"], w["store"], w["crash_after_engine_op"], w["baseline"])
