"""
C18  Validator-accepted machines run; uninterpretable ones hurt only themselves.

  V  StateLint.validate(x) returns a problem list and never raises, for mutated machines and arbitrary JSON values
  R  a definition with an EMPTY problem list never fails at run time with the engine's illegal-machine diagnostics (missing/dangling
     Next, non-existent or non-unique state, illegal Type, handler exception) and never leaves its execution without a terminal status
  P  a poison definition or event at worst fails its own execution: its message is acknowledged, the engine keeps serving, and a healthy
     execution running beside it ends exactly as it does alone
"""
import json, copy, random
from lsfverif.gen import machines as G, families as F
from lsfverif.sim import mini
from lsfverif.mon import scenario as S
from lsfverif.sim.world import World, EVENTQ, EPOCH0
from lsfverif.sim import fakepika

ID = "C18"
ENGINE = "simworld"
LEVEL = "exploration"
RULE = ("case = mutant of a generated well-formed machine (drop / retype / rename / retarget a field or state, wrong JSON types, duplicated names across nesting levels, "
        "state names that are JSONPath-significant or equal to field names or payload keys) or an arbitrary JSON value, run through the validator and, when it reports "
        "no problem, through the real engine; poison definitions/events run beside a healthy execution in the simulated world. non-trivial = mutant accepted by the "
        "validator, or a poison beside a healthy execution; distinct by canonical JSON of the definition / event")
ASSUMPTIONS = ["machines use no data-dependent paths so that a States.Runtime failure is structural", "task stubs always succeed"]
FLOORS = {"evaluations": 2500, "validated": 2500, "accepted_and_run": 500, "rejected": 800, "poison_runs": 100, "nontrivial": 600, "arbitrary_json_validated": 150}
SHARDS = {"quick": 16, "thorough": 16}
TECHNIQUE = "mutation-based input generation; exception monitor on the validator; diagnostic/termination monitor on real executions; isolation monitor beside a healthy execution"
LEVEL_TEXT = ("Thousands of mutated definitions and arbitrary JSON values go through the real validator (which must not raise); the accepted ones are executed by the real "
              "engine (which must not report an illegal machine or hang); poison definitions and queue events run beside a healthy execution whose outcome must not change. "
              "Held = no exception, no accepted-but-illegal machine, no collateral damage, up to the listed findings.")
LEVEL_NOTE = "mutants are drawn from the generator's machines; reach is the mutation operators listed in RULE"
DESIGN_REF = "DESIGN.md section 6, C18"

ILLEGAL_MARKERS = ("Illegal State Machine", "caused the exception", "Mandatory \"Next\" field is missing")
HOSTILE_NAMES = ["Type", "End", "States", "Next", "a.b", "x[0]", "it's", "$", "*", "Branches", "StartAt", "Result", "k", "my key", "a..b", "0",
                 "Parameters", "ItemSelector", "ResultSelector", "Retry", "Catch", "Choices", "Default", "ItemProcessor", "Iterator", "Comment", "InputPath", "ResultPath"]


def walk(node, path=()):
    yield path, node
    if isinstance(node, dict):
        for k, v in node.items():
            yield from walk(v, path + (k,))
    elif isinstance(node, list):
        for i, v in enumerate(node):
            yield from walk(v, path + (i,))


def get(node, path):
    for p in path:
        node = node[p]
    return node


def base_machine(rng):
    """A well-formed machine without data-dependent paths."""
    g = G.Gen(rng, max_states=4, p_missing_path=0.0, p_catch=0.3, p_retry=0.3)
    asl = g.machine({"v": 1, "items": [1, 2]}, depth=2)
    # strip data-dependent paths: keep structure, literal Results only
    for _, st in G.all_states(asl):
        for k in ("InputPath", "OutputPath", "ResultPath", "Parameters", "ResultSelector", "ItemSelector", "ItemsPath"):
            st.pop(k, None)
        if st.get("Type") == "Choice":
            for c in st["Choices"]:
                for kk in list(c):
                    if kk not in ("Next",):
                        del c[kk]
                c.update({"Variable": "$.v", "IsPresent": True})
        if st.get("Type") == "Map":
            st["ItemsPath"] = "$.items"
    return asl, g.funcs


def mutate(asl, r):
    m = copy.deepcopy(asl)
    nodes = [(p, n) for p, n in walk(m) if p]
    kind = r.choice(["drop", "retype", "rename", "retarget", "dupstate", "wrongjson", "hostile-name", "payload-key-name", "nonobject-state", "empty", "empty-array", "dup-sibling", "wrong-typed-field", "field-named-state-made-illegal"])
    p, n = r.choice(nodes)
    parent = get(m, p[:-1]); key = p[-1]
    if kind == "drop":
        if isinstance(parent, dict):
            del parent[key]
        else:
            parent.pop(key)
    elif kind == "retype":
        parent[key] = copy.deepcopy(r.choice([None, 5, "x", [], {}, True, [1], {"a": 1}, 1.5, ""]))
    elif kind == "rename" and isinstance(parent, dict):
        parent[r.choice(["Type", "Next", "End", "Result", "States", "zz", str(key) + "x"])] = parent.pop(key)
    elif kind == "retarget":
        states = [k for pp, nn in walk(m) if pp and pp[-1] == "States" and isinstance(nn, dict) for k in nn]
        for pp, nn in walk(m):
            if isinstance(nn, dict) and "Next" in nn and r.random() < 0.3:
                nn["Next"] = r.choice(states + ["Nowhere"])
    elif kind == "dupstate":
        sts = [(pp, nn) for pp, nn in walk(m) if pp and pp[-1] == "States" and isinstance(nn, dict) and nn]
        if len(sts) >= 2:
            (p1, s1), (p2, s2) = r.sample(sts, 2)
            k = r.choice(list(s1)); s2[k] = copy.deepcopy(s1[k])
    elif kind == "wrongjson":
        parent[key] = r.choice(["Pass", "Task", "Choice", "Bogus", 1.5, "Wait"])
    elif kind == "hostile-name":
        sts = [(pp, nn) for pp, nn in walk(m) if pp and pp[-1] == "States" and isinstance(nn, dict) and nn]
        pp, states = r.choice(sts)
        old = r.choice(list(states)); new = r.choice(HOSTILE_NAMES)
        rename_state(m, pp, old, new)
    elif kind == "payload-key-name":
        # a state whose name equals a key inside some Result payload
        sts = [(pp, nn) for pp, nn in walk(m) if pp and pp[-1] == "States" and isinstance(nn, dict) and nn]
        pp, states = r.choice(sts)
        old = r.choice(list(states))
        rename_state(m, pp, old, "payloadkey")
        first = next(iter(m["States"].values()))
        if isinstance(first, dict) and first.get("Type") == "Pass":
            first["Result"] = {"payloadkey": {"States": 1}}
    elif kind == "nonobject-state":
        sts = [(pp, nn) for pp, nn in walk(m) if pp and pp[-1] == "States" and isinstance(nn, dict) and nn]
        pp, states = r.choice(sts)
        states[r.choice(list(states))] = r.choice(["Bogus", 5, None, [], True])
    elif kind == "field-named-state-made-illegal":
        # a state that bears the name of a States-Language field AND is illegal in itself (dangling Next, missing Type, unknown Type): the
        # validator must look at it like at any other state
        sts = [(pp, nn) for pp, nn in walk(m) if pp and pp[-1] == "States" and isinstance(nn, dict) and nn]
        pp, states = r.choice(sts)
        with_next = [n for n, x in states.items() if isinstance(x, dict) and "Next" in x]
        old_name = r.choice(with_next or list(states)); new_name = r.choice(["Result", "Parameters", "ItemSelector", "ResultSelector", "Retry", "Catch", "Choices", "Comment"])
        rename_state(m, pp, old_name, new_name)
        st = get(m, pp).get(new_name)
        if isinstance(st, dict):
            how = r.choice(["dangling-next", "dangling-next", "no-type", "bad-type"])
            if how == "dangling-next" and "Next" in st:
                st["Next"] = "Nowhere"          # (the machine keeps its terminal state elsewhere: only this transition is wrong)
            elif how == "dangling-next":
                st.pop("End", None); st["Next"] = "Nowhere"
            elif how == "no-type":
                st.pop("Type", None)
            else:
                st["Type"] = "Nope"
    elif kind == "dup-sibling":
        # the first state of one branch gets the name of a state of a sibling branch (or of another fan-out's body)
        bodies = [(pp, nn) for pp, nn in walk(m) if pp and isinstance(nn, dict) and isinstance(nn.get("States"), dict) and nn["States"] and "StartAt" in nn]
        if len(bodies) >= 2:
            (p1, b1), (p2, b2) = r.sample(bodies, 2)
            new = r.choice(list(b1["States"]))
            if new not in b2["States"] and b2.get("StartAt") in b2["States"] and p1 != p2[:len(p1)] and p2 != p1[:len(p2)]:
                rename_state(m, p2 + ("States",), b2["StartAt"], new)
    elif kind == "wrong-typed-field":
        # a field the engine dereferences gets a value of another JSON type
        sts = [(pp, nn) for pp, nn in walk(m) if isinstance(nn, dict) and nn.get("Type") in ("Task", "Wait", "Choice", "Map", "Parallel", "Pass")]
        if sts:
            pp, st = r.choice(sts)
            f = r.choice([k for k in ("Resource", "Seconds", "Timestamp", "TimeoutSeconds", "Retry", "Catch", "Parameters", "ItemsPath", "InputPath", "ResultPath",
                                      "Choices", "Branches", "MaxConcurrency", "HeartbeatSeconds", "Next", "Default") if k in st] or ["Resource"])
            st[f] = copy.deepcopy(r.choice([None, 5, [1], {"a": 1}, True, "x", -1, 1.5]))
    elif kind == "empty-array":
        arrays = [(pp, nn) for pp, nn in walk(m) if pp and isinstance(nn, list) and nn]
        if arrays:
            pp, nn = r.choice(arrays)
            del nn[:]
    else:
        parent[key] = {} if isinstance(n, dict) else [] if isinstance(n, list) else ""
    return m, kind


def rename_state(m, states_path, old, new):
    container = get(m, states_path[:-1])
    states = container["States"]
    if new in states or old not in states:
        return
    container["States"] = {(new if k == old else k): v for k, v in states.items()}
    if container.get("StartAt") == old:
        container["StartAt"] = new
    for _, st in list(walk(container["States"])):
        if isinstance(st, dict):
            for f in ("Next", "Default"):
                if st.get(f) == old:
                    st[f] = new


def arbitrary_json(r, depth=3):
    c = r.random()
    if depth <= 0 or c < 0.4:
        return copy.deepcopy(r.choice([None, 0, 1, -1, 1.5, "", "x", "States", True, False, [], {}, "$.a", "Pass"]))
    if c < 0.7:
        return {r.choice(["StartAt", "States", "Type", "Next", "End", "Branches", "Choices", "Retry", "Catch", "x", "Comment", "TimeoutSeconds", "Version"]): arbitrary_json(r, depth - 1)
                for _ in range(r.randint(0, 4))}
    return [arbitrary_json(r, depth - 1) for _ in range(r.randint(0, 3))]


def uninterpretable(m):
    """A (nested) state machine whose "States" is missing or not an object, or one of whose states is not an object or has no "Type": the engine
    dereferences these outside its error handlers (find_state / state.get), which is the listed finding's mechanism."""
    def machines(node, root):
        if root or (isinstance(node, dict) and ("StartAt" in node or "States" in node)):
            yield node
        if isinstance(node, dict):
            for v in node.values():
                yield from machines(v, False)
        elif isinstance(node, list):
            for v in node:
                yield from machines(v, False)
    for mm in machines(m, True):
        if not isinstance(mm, dict) or not isinstance(mm.get("States"), dict):
            return True
        if any(not isinstance(st, dict) or "Type" not in st for st in mm["States"].values()):
            return True
    return False


def unvalidated_nodes(m):
    """Nodes the validator skips: it returns without checking anything for a node that is not a NON-EMPTY object, and it does not look
    at empty strings as names.  -> list of (path, value)"""
    out = []
    for pp, nn in walk(m):
        if not pp:
            continue
        key = pp[-1]
        parent_key = pp[-2] if len(pp) >= 2 else None
        needs_object = parent_key in ("States", "Branches", "Retry", "Catch", "Choices", "And", "Or") or key in ("ItemProcessor", "Iterator", "Not")
        if needs_object and (not isinstance(nn, dict) or not nn):
            out.append((pp, nn))
        if key in ("Next", "StartAt", "Default", "Resource", "Variable") and not (isinstance(nn, str) and nn):
            out.append((pp, nn))
        if key in ("Retry", "Catch", "Branches", "Choices") and (not isinstance(nn, list)):
            out.append((pp, nn))
        if key in ("Branches", "Choices", "And", "Or", "ErrorEquals") and nn == []:
            out.append((pp, nn))
    return out


def classify_accepted(m, kind, res):
    if not isinstance(m, dict):
        return None
    if unvalidated_nodes(m):
        return "statelint-skips-empty-or-nonobject-nodes"
    names = [k for pp, nn in walk(m) if pp and pp[-1] == "States" and isinstance(nn, dict) for k in nn]
    hostile = [n for n in names if n in HOSTILE_NAMES or n == "payloadkey"]
    cause = str((res or {}).get("cause") or "")
    if hostile and (res is None or not cause or any(('"%s"' % n) in cause for n in hostile)):
        # (the listed finding is the engine's name lookup going wrong FOR THAT NAME; a machine that merely contains such a name and fails
        # for the sake of another state is something else)
        return "state-name-collides-with-jsonpath-lookup"
    if res and res.get("status") == "NONE" and handled_fanout_failure_with_siblings(m, res.get("history") or []):
        return "fanout-failure-handled-siblings-live"
    return None


def handled_fanout_failure_with_siblings(m, history):
    """C06's listed finding seen from here: a Map/Parallel state with several branches failed, the failure was handled (the history goes
    on after <Type>StateFailed), and the siblings that were never stopped keep reporting to a join that no longer exists."""
    several = any(isinstance(st, dict) and (st.get("Catch") or st.get("Retry")) and
                  (st.get("Type") == "Map" or (st.get("Type") == "Parallel" and isinstance(st.get("Branches"), list) and len(st["Branches"]) > 1))
                  for _, st in walk(m))
    types = [h.get("type") for h in history]
    failed = [i for i, t in enumerate(types) if t in ("ParallelStateFailed", "MapStateFailed")]
    # handled = the history goes on after <Type>StateFailed with something other than the end of the execution (the Catcher's StateExited,
    # the Retrier's re-entry)
    return several and any(i + 1 < len(types) and types[i + 1] not in ("ExecutionFailed", "ExecutionAborted", "ExecutionTimedOut") for i in failed)


def callback_frames(error):
    """The listed call site: an exception raised INSIDE handle_error() (it interprets Retry/Catch of a definition the validator let through)
    while handle_error was reached from a deferred callback (reply / time-out / delegate), i.e. outside notify()'s own catch-all.  An
    exception that escapes from anywhere else in a deferred callback is not this finding."""
    import re
    if not error or not any(f in error for f in ("_delegate", "on_response", "on_timeout", "handle_rpcmessage_response", "timeout_callback", "handle_unroutable")):
        return False
    frames = re.findall(r'File "[^"]*asl_workflow_engine/[^"]*", line \d+, in (\w+)', error)
    return bool(frames) and frames[-1] == "handle_error"


def validate(ctx, sl, x):
    ctx.count("validated")
    try:
        p = sl.validate(x)
        if not isinstance(p, list):
            ctx.violation("validator-returned-no-problem-list", dict(definition=x, returned=repr(p)[:100]), None)
            return None
        return p
    except RecursionError:
        ctx.violation("validator-raised", dict(definition=x, exception="RecursionError"), None)
    except Exception as e:
        ctx.violation("validator-raised", dict(definition=x, exception="%s: %s" % (type(e).__name__, str(e)[:200])), None)
    return None


def run_accepted(ctx, m, kind):
    """An accepted definition through the real engine (mini harness)."""
    ctx.count("accepted_and_run")
    ctx.nontrivial(m)
    try:
        res = mini.run(m, {"v": 1, "items": [1, 2]}, tasks=lambda fn, p: {"r": 1})
    except RecursionError:
        ctx.violation("engine-raised-on-accepted-definition", dict(definition=m, mutation=kind, exception="RecursionError"), classify_accepted(m, kind, None))
        return
    except Exception as e:
        import traceback
        ctx.violation("engine-raised-on-accepted-definition", dict(definition=m, mutation=kind, exception="%s: %s" % (type(e).__name__, str(e)[:200]),
                                                                  where=traceback.format_exc()[-400:]), classify_accepted(m, kind, None))
        return
    cause = res.get("cause") or ""
    if res["status"] == "FAILED" and res["error"] == "States.Runtime" and any(mk in cause for mk in ILLEGAL_MARKERS):
        ctx.violation("accepted-definition-is-an-illegal-state-machine-at-run-time", dict(definition=m, mutation=kind, cause=cause[:300]), classify_accepted(m, kind, res))
    elif res["status"] == "NONE":
        if res.get("events", 0) >= 5000:
            ctx.count("accepted_machine_loops_for_ever_not_judged")       # a legal machine may loop
        else:
            # confirm in the full simulated world (the mini harness has no task time-outs and runs timers depth-first)
            scn = {"machines": {"m": {"asl": m}}, "funcs": {}, "starts": [{"machine": "m", "name": "e", "input": {"v": 1, "items": [1, 2]}}]}
            run = S.execute(scn, seed=ctx.seed, monitors=("notes",))
            try:
                seq = list(run.status_seq.values())
                confirmed = not (seq and seq[0] and seq[0][-1] in ("SUCCEEDED", "FAILED"))
            finally:
                S.close(run)
            if confirmed:
                ctx.violation("accepted-definition-leaves-execution-without-terminal-status", dict(definition=m, mutation=kind, unacked=len(res["unacked"])), classify_accepted(m, kind, res))
            else:
                ctx.count("mini_harness_nontermination_not_confirmed_in_world")
    elif res["unacked"]:
        ctx.count("accepted_machine_left_events_unacknowledged_not_judged_here")      # C03/C06's clause, not this property's


HEALTHY = F.chain([("H1", F.T("echo")), ("H2", F.W(2)), ("H3", F.T("wrap"))])


def poison_run(ctx, poison_kind, payload, k):
    """Poison definition / event beside a healthy execution."""
    ctx.evaluation(); ctx.count("poison_runs"); ctx.count("poison:" + poison_kind)
    ctx.nontrivial([poison_kind, payload])
    scn = {"machines": {"h": {"asl": HEALTHY}}, "funcs": dict(F.FUNCS), "starts": [{"machine": "h", "name": "healthy", "input": {"x": 1}}]}

    preamble_escapes = []

    def watch_notify(se):
        """Record exceptions that leave notify() from its own preamble (looking the state up, reading its Type, ...), i.e. before any
        state handler or error handler of the engine was entered: that is the listed finding's mechanism, nothing else is."""
        orig = se.notify

        def notify(event, id=None, *a, **k):
            try:
                return orig(event, id, *a, **k)
            except Exception as ex:
                import traceback
                names = [f.name for f in traceback.extract_tb(ex.__traceback__) if f.filename.endswith("state_engine.py")]
                inner = names[names.index("notify") + 1:] if "notify" in names else names
                if not any(n.startswith("asl_state_") or n in ("handle_error", "handle_terminal_state", "change_state", "end_execution") for n in inner):
                    preamble_escapes.append((type(ex).__name__, names[-3:]))
                raise
        se.notify = notify

    def hook(run):
        w = run.world
        ch = w.client_channel()
        props = lambda mid: fakepika.BasicProperties(message_id=mid, content_type="application/json", delivery_mode=2)
        for e in w.engines.values():
            watch_notify(e.se)
        if poison_kind == "definition":
            arn = w.sm_arn("poison")
            e = next(iter(w.engines.values()))
            e.se.asl_store[arn] = {"creationDate": 0, "definition": payload, "name": "poison", "roleArn": "r", "stateMachineArn": arn, "updateDate": 0, "status": "ACTIVE", "type": "STANDARD"}
            w.start_event(arn, "p", {"v": 1, "items": [1, 2]}, message_id="poison-start")
        elif poison_kind == "event":
            ch.basic_publish("", EVENTQ, json.dumps(payload), props("poison-ev"))
        elif poison_kind == "event-noid":
            # an event from a client that sets no AMQP message id (nothing obliges it to): two of them, so that they cannot hide behind one another
            ch.basic_publish("", EVENTQ, json.dumps(payload), props(None))
            ch.basic_publish("", EVENTQ, json.dumps(payload), props(None))
        elif poison_kind == "raw":
            ch.basic_publish("", EVENTQ, payload, props("poison-raw"))
        elif poison_kind == "instance-event":
            ch.basic_publish("", EVENTQ + "-i1", json.dumps(payload), props("poison-iev"))
        elif poison_kind == "reply":
            ch.basic_publish("", "asl_workflow_reply_to-i1", payload, fakepika.BasicProperties(correlation_id="nobody", content_type="application/json"))
    run = S.execute(scn, seed=ctx.seed, hooks=[hook], max_steps=4000)      # (a poison may loop in zero time: bound the run, see below)
    try:
        w = run.world
        harn = w.sm_arn("h").replace("stateMachine", "execution") + ":healthy"
        st, out, err, t = run.outcomes.get(harn, ("NONE", None, None, None))
        wit = lambda extra: S.witness_of(run, dict(extra, poison_kind=poison_kind, poison=payload))
        nonobject_state = poison_kind == "definition" and (uninterpretable(payload) or bool(preamble_escapes))
        if preamble_escapes:
            ctx.count("poison_exception_left_notify_preamble")
        if run.error and "no quiescence after" in run.error:
            # a definition that loops in zero virtual time (e.g. a Catcher whose Next is the failing state itself) is a legal machine; the
            # discrete-event clock cannot advance past it, so nothing about the neighbours can be concluded from this run
            ctx.count("poison_loops_in_zero_time_not_judged")
            return
        escaped = "exception-in-deferred-callback-escapes-the-engine" if callback_frames(run.error) else None
        if run.error:
            ctx.violation("poison-made-an-exception-escape-the-engine", wit({}), escaped)
        if st != "SUCCEEDED" or out != {"fn": "wrap", "in": {"x": 1}}:
            # (in the simulated world an escaping exception stops the scheduler: the healthy execution cannot finish either)
            ctx.violation("poison-changed-the-healthy-execution", wit(dict(healthy=[st, out, err])), escaped)
        # the poison's own execution: terminal or never started, never RUNNING for ever
        parn = w.sm_arn("poison").replace("stateMachine", "execution") + ":p"
        seq = run.status_seq.get(parn)
        # (the statement asks that it FAILS with a terminal status at worst; what else an uninterpretable definition makes the engine announce for that same
        #  execution - here a further RUNNING from a branch without StartAt - is not this property's business, C02 is about well-formed machines)
        if seq and not any(x in ("SUCCEEDED", "FAILED") for x in seq):
            ctx.violation("poison-execution-left-RUNNING-for-ever", wit(dict(statuses=seq)),
                          escaped or ("uninterpretable-state-loses-execution" if nonobject_state else None))
        has_fanout = poison_kind == "definition" and any(isinstance(st, dict) and st.get("Type") in ("Parallel", "Map") for _, st in walk(payload) if isinstance(st, dict))
        for v in run.violations:
            if v["rule"].startswith("A4-") and not has_fanout:      # leftovers after a failing fan-out are C06's business
                ctx.violation("poison-left-unacknowledged-messages-or-engine-state", wit(dict(violation=v)),
                              escaped or ("uninterpretable-state-loses-execution" if (nonobject_state and (not seq or seq[-1] == "RUNNING")) else None))
        # the engine keeps serving: a second healthy execution afterwards
        w.start_event(w.sm_arn("h"), "after", {"x": 2})
        w.run()
        st2 = w.outcome(harn.rsplit(":", 1)[0] + ":after")[0]
        if st2 != "SUCCEEDED":
            ctx.violation("engine-stopped-serving-after-poison", wit(dict(later_execution=st2)), escaped)
    except SystemExit as e:
        ctx.violation("poison-stopped-the-engine-SystemExit", dict(poison_kind=poison_kind, poison=payload), None)
    finally:
        S.close(run)


def run(ctx):
    from statelint.statelint import StateLint
    sl = StateLint()
    n = ctx.pick(900, 20000)
    i = 0
    for k in range(n):
        i += 1
        if not ctx.mine(i):
            continue
        rng = ctx.rng("base", k)
        asl, funcs = base_machine(rng)
        ctx.evaluation()
        p = validate(ctx, sl, asl)
        if p == []:
            run_accepted(ctx, asl, "unmutated")
        elif p:
            ctx.count("generator_machine_rejected_by_validator")
        for j in range(3):
            m, kind = mutate(asl, rng)
            ctx.evaluation(); ctx.count("mutation:" + kind)
            ctx.distinct("definitions", m)
            p = validate(ctx, sl, m)
            if p is None:
                continue
            if p:
                ctx.count("rejected")
                continue
            run_accepted(ctx, m, kind)
            if ctx.counters["accepted_and_run"] % 97 == 1:
                ctx.sample(dict(mutation=kind, definition=m))
    for k in range(ctx.pick(400, 8000)):
        i += 1
        if not ctx.mine(i):
            continue
        rng = ctx.rng("json", k)
        x = arbitrary_json(rng)
        ctx.evaluation(); ctx.count("arbitrary_json_validated")
        p = validate(ctx, sl, x)
        if p == []:
            run_accepted(ctx, x, "arbitrary")
    # states that bear the name of a States-Language field and are illegal in themselves, in machines that are otherwise fine
    for k, nm in enumerate(["Result", "Parameters", "ItemSelector", "ResultSelector", "Retry", "Catch", "Choices", "Branches", "Iterator", "ItemProcessor", "Comment", "InputPath"]):
        for how in ("dangling-next", "no-type", "bad-type", "dangling-default"):
            i += 1
            if not ctx.mine(i):
                continue
            bad = {"Type": "Pass", "Next": "Nowhere"} if how == "dangling-next" else {"Next": "Z"} if how == "no-type" else {"Type": "Nope", "Next": "Z"} if how == "bad-type" else \
                {"Type": "Choice", "Choices": [{"Variable": "$.nope", "IsPresent": True, "Next": "Z"}], "Default": "Nowhere"}
            m = {"StartAt": "A", "States": {"A": {"Type": "Choice", "Choices": [{"Variable": "$.v", "IsPresent": True, "Next": nm}], "Default": "Z"}, nm: bad, "Z": {"Type": "Succeed"}}}
            ctx.evaluation(); ctx.count("field_named_states")
            p = validate(ctx, sl, m)
            if p == []:
                run_accepted(ctx, m, "field-named-state:" + how)
    # poison beside a healthy execution
    poisons = [("definition", {"StartAt": "A", "States": {"A": "Bogus"}}), ("definition", {"StartAt": "A", "States": {"A": {"Type": "Nope", "End": True}}}),
               ("definition", {"StartAt": "Missing", "States": {"A": {"Type": "Pass", "End": True}}}), ("definition", {"StartAt": "A", "States": {"A": {"Type": "Pass"}}}),
               ("definition", {"StartAt": "A", "States": {"A": {"Type": "Task", "Resource": "arn:aws:rpcmessage:local::function:boom", "Catch": [{"ErrorEquals": ["States.ALL"]}], "End": True}}}),
               ("definition", {"StartAt": "A", "States": {"A": {"Type": "Task", "Resource": "arn:aws:rpcmessage:local::function:boom", "Catch": [{"ErrorEquals": ["States.ALL"], "Next": "Nowhere"}], "End": True}}}),
               ("definition", {"StartAt": "P", "States": {"P": {"Type": "Parallel", "End": True, "Branches": [
                   {"StartAt": "A", "States": {"A": {"Type": "Task", "Resource": "arn:aws:rpcmessage:local::function:boom", "Catch": [{"ErrorEquals": ["States.ALL"]}], "End": True}}},
                   {"StartAt": "B", "States": {"B": {"Type": "Pass", "End": True}}}]}}}),
               ("definition", {"StartAt": "A", "States": {"A": {"Type": "Task", "Resource": "arn:aws:rpcmessage:local::function:boom", "Retry": [{"ErrorEquals": ["States.ALL"], "MaxAttempts": 1}], "Next": "Gone"}}}),
               ("definition", {"StartAt": "A", "States": {"A": {"Type": "Pass", "Next": "B"}, "B": {"Type": "Choice", "Choices": [{"Variable": "$.v", "IsPresent": True}], "Default": "Gone"}}}),
               ("definition", 5), ("definition", [1]), ("definition", {"StartAt": "A"}), ("definition", {"StartAt": "A", "States": {"A": {"Type": "Task", "End": True}}}),
               ("definition", {"StartAt": "A", "States": {"A": {"Type": "Choice", "Choices": 5}}}), ("definition", {"StartAt": "A", "States": {"A": {"Type": "Map", "End": True}}}),
               ("definition", {"StartAt": "A", "States": {"A": {"Type": "Parallel", "Branches": [5], "End": True}}}),
               ("definition", {"StartAt": "A", "States": {"A": {"Type": "Wait", "Timestamp": 5, "End": True}}}),
               ("event", [1, 2]), ("event", 5), ("event", "str"), ("event", None), ("event", {"data": 1}), ("event", {"context": 5}), ("event", {"context": {"StateMachine": 5}}),
               ("event", {"context": {"StateMachine": {"Id": 7}}}), ("event", {"context": {"StateMachine": {"Id": "not-an-arn"}}}),
               ("event", {"context": {"StateMachine": {"Id": "arn:aws:states:local:0123456789:stateMachine:h"}, "State": 5}}),
               ("event", {"context": {"StateMachine": {"Id": "arn:aws:states:local:0123456789:stateMachine:h"}, "State": {"Name": "Nowhere"}, "Execution": {"Id": "arn:aws:states:local:0123456789:execution:h:x"}}}),
               ("event", {"context": {"StateMachine": {"Id": "arn:aws:states:local:0123456789:stateMachine:byvalue", "Definition": 5}}}),
               ("event-noid", [1, 2]), ("event-noid", 5), ("event-noid", {"context": 5}), ("event-noid", {"context": {"StateMachine": {"Id": "not-an-arn", "Definition": {"StartAt": "A", "States": {"A": {"Type": "Pass", "End": True}}}}}}),
               ("event-noid", {"data": {"ok": 1}, "context": {"StateMachine": {"Id": "arn:aws:states:local:0123456789:stateMachine:h"}}}),
               ("raw", "{not json"), ("raw", ""), ("raw", b"\xff\xfe"), ("instance-event", {"data": {}, "context": {"StateMachine": {"Id": "arn:aws:states:local:0123456789:stateMachine:h"}, "State": {"Name": "H2", "Branch": 5}, "Execution": {"Id": "arn:aws:states:local:0123456789:execution:h:y"}}}),
               ("reply", "{not json"), ("reply", json.dumps({"errorType": "X"})), ("reply", "5")]
    # fields the engine dereferences, with a value of the wrong JSON type (each would be refused by the validator, so only a store written
    # behind its back can hold them: exactly the "definition the engine cannot interpret" of the statement)
    tk = lambda **kw: {"StartAt": "A", "States": {"A": dict({"Type": "Task", "Resource": "arn:aws:rpcmessage:local::function:echo", "End": True}, **kw)}}
    for bad in (None, 5, [1], {"a": 1}, True):
        poisons.append(("definition", tk(Resource=bad)))
    # dangling StartAt / Next inside the bodies of fan-outs, at every position (the failure reaches the join before any result does)
    okb = {"StartAt": "B", "States": {"B": {"Type": "Pass", "End": True}}}
    ghost = {"StartAt": "Ghost", "States": {"G1": {"Type": "Pass", "End": True}}}
    dangl = {"StartAt": "D1", "States": {"D1": {"Type": "Pass", "Next": "Ghost"}}}
    late = {"StartAt": "L1", "States": {"L1": {"Type": "Task", "Resource": "arn:aws:rpcmessage:local::function:echo", "Next": "Ghost"}}}
    for bad in (ghost, dangl, late):
        for branches in ([bad, okb], [okb, bad], [bad], [bad, bad]):
            poisons.append(("definition", {"StartAt": "P", "States": {"P": {"Type": "Parallel", "Branches": copy.deepcopy(branches), "End": True}}}))
        for mc in (None, 1):
            mp = {"Type": "Map", "ItemsPath": "$.items", "ItemProcessor": copy.deepcopy(bad), "End": True}
            if mc:
                mp["MaxConcurrency"] = mc
            poisons.append(("definition", {"StartAt": "M", "States": {"M": mp}}))
        poisons.append(("definition", {"StartAt": "O", "States": {"O": {"Type": "Parallel", "End": True, "Branches": [
            {"StartAt": "I", "States": {"I": {"Type": "Map", "ItemsPath": "$.items", "ItemProcessor": copy.deepcopy(bad), "End": True}}}, okb]}}}))
    for fld, vals in (("TimeoutSeconds", ["x", None, [1], -1]), ("HeartbeatSeconds", ["x", {}]), ("Retry", [5, "x", {"a": 1}, [5], [None]]), ("Catch", [5, "x", [5], [{"Next": 5}]]),
                      ("Parameters", [5, "x", [1]]), ("InputPath", [5, [1], {}]), ("ResultPath", [5, [1], {}]), ("OutputPath", [5, {}]), ("ResultSelector", [5, "x"]),
                      ("Next", [5, None, [1], {}])):
        for v in vals:
            d = tk(**{fld: v})
            if fld == "Next":
                d["States"]["A"].pop("End")
            poisons.append(("definition", d))
    for st in ({"Type": "Wait", "Seconds": "x", "End": True}, {"Type": "Wait", "Seconds": [1], "End": True}, {"Type": "Wait", "SecondsPath": 5, "End": True},
               {"Type": "Wait", "TimestampPath": {}, "End": True}, {"Type": "Choice", "Choices": {"a": 1}, "Default": "A"}, {"Type": "Choice", "Choices": [5]},
               {"Type": "Choice", "Choices": [{"Variable": 5, "IsPresent": True, "Next": "A"}]}, {"Type": "Choice", "Choices": [{"And": 5, "Next": "A"}]},
               {"Type": "Map", "ItemsPath": 5, "ItemProcessor": {"StartAt": "X", "States": {"X": {"Type": "Succeed"}}}, "End": True},
               {"Type": "Map", "MaxConcurrency": "x", "ItemsPath": "$.items", "ItemProcessor": {"StartAt": "X", "States": {"X": {"Type": "Succeed"}}}, "End": True},
               {"Type": "Map", "ItemsPath": "$.items", "ItemProcessor": 5, "End": True}, {"Type": "Parallel", "Branches": {"a": 1}, "End": True},
               {"Type": "Parallel", "Branches": [{"StartAt": 5, "States": {}}], "End": True}, {"Type": "Pass", "Result": 1, "ResultPath": 5, "End": True},
               {"Type": "Fail", "Error": 5, "Cause": [1]}, {"Type": 5, "End": True}, {"Type": ["Pass"], "End": True}):
        poisons.append(("definition", {"StartAt": "A", "States": {"A": st}}))
    for k, (pk, payload) in enumerate(poisons):
        i += 1
        if ctx.mine(i):
            poison_run(ctx, pk, payload, k)
    for k in range(ctx.pick(80, 1500)):
        i += 1
        if not ctx.mine(i):
            continue
        rng = ctx.rng("poison", k)
        if k % 2:
            asl, funcs = base_machine(rng)
            m, kind = mutate(asl, rng)
            poison_run(ctx, "definition", m, k)
        else:
            poison_run(ctx, rng.choice(["event", "instance-event"]), arbitrary_json(rng), k)


def witnesses(ctx):
    from statelint.statelint import StateLint
    sl = StateLint()
    m = {"StartAt": "A", "States": {"A": {"Type": "Pass", "Next": "B"}, "B": "Bogus"}}
    p = sl.validate(m)
    ctx.witness("statelint-skips-empty-or-nonobject-nodes", p == [], dict(definition=m, problems=p))
    sub = type(ctx)(ctx.check_id, ctx.tier, ctx.seed)
    poison_run(sub, "definition", m, 0)
    hit = [v for v in sub.violations if v["mechanism"] == "uninterpretable-state-loses-execution"]
    ctx.witness("uninterpretable-state-loses-execution", bool(hit), dict(kinds=sorted({v["kind"] for v in hit})))
    m2 = {"StartAt": "P", "States": {"P": {"Type": "Parallel", "End": True, "Branches": [{"StartAt": "Type", "States": {"Type": {"Type": "Pass", "End": True}}}]}}}
    sub2 = type(ctx)(ctx.check_id, ctx.tier, ctx.seed)
    if sl.validate(m2) == []:
        run_accepted(sub2, m2, "hostile-name")
    hit = [v for v in sub2.violations if v["mechanism"] == "state-name-collides-with-jsonpath-lookup"]
    ctx.witness("state-name-collides-with-jsonpath-lookup", bool(hit), dict(kinds=sorted({v["kind"] for v in hit})))
    # the Retry/Catch interpreter reached from a reply callback with a retrier that has no ErrorEquals
    sub3 = type(ctx)(ctx.check_id, ctx.tier, ctx.seed)
    poison_run(sub3, "definition", {"StartAt": "A", "States": {"A": dict(F.T("boom"), Retry=[{"MaxAttempts": 1}], End=True)}}, 0)
    hit = [v for v in sub3.violations if v["mechanism"] == "exception-in-deferred-callback-escapes-the-engine"]
    ctx.witness("exception-in-deferred-callback-escapes-the-engine", bool(hit), dict(kinds=sorted({v["kind"] for v in hit})))
    for v in sub3.violations:
        if v["mechanism"] != "exception-in-deferred-callback-escapes-the-engine":
            ctx.violation(v["kind"], v["witness"], v["mechanism"])
    # a caught failure of a nested Parallel whose continuation (and the outer sibling's Wait) is swallowed by the per-execution clean-up: the accepted
    # machine never ends (C06's listed sibling finding seen from here)
    Pz = lambda **k: dict(Type="Pass", **k)
    m4 = {"StartAt": "S1", "States": {"S1": {"Type": "Parallel", "Branches": [
        {"StartAt": "S3", "States": {"S3": {"Type": "Parallel", "Branches": [
            {"StartAt": "S5", "States": {"S5": Pz(Next="S6"), "S6": {"Type": "Wait", "Seconds": 12, "Next": "S8"}, "S8": Pz(End=True)}},
            {"StartAt": "S9", "States": {"S9": {"Type": "Fail", "Error": "My Error", "Cause": "because"}}}],
            "Catch": [{"ErrorEquals": ["States.ALL"], "Next": "S4"}], "Next": "S4"}, "S4": Pz(Result="s4", End=True)}},
        {"StartAt": "S12", "States": {"S12": {"Type": "Wait", "Seconds": 5, "Next": "S13"}, "S13": Pz(End=True)}}], "Next": "S2"}, "S2": Pz(Result="A", End=True)}}
    sub4 = type(ctx)(ctx.check_id, ctx.tier, ctx.seed)
    if sl.validate(m4) == []:
        run_accepted(sub4, m4, "witness")
    hit = [v for v in sub4.violations if v["mechanism"] == "fanout-failure-handled-siblings-live"]
    ctx.witness("fanout-failure-handled-siblings-live", bool(hit), dict(kinds=sorted({v["kind"] for v in hit})))
    for v in sub4.violations:
        if v["mechanism"] != "fanout-failure-handled-siblings-live":
            ctx.violation(v["kind"], v["witness"], v["mechanism"])
    # repaired engine defects are regression cases: a Parallel state without branches (accepted by the validator) used to wait for ever
    E = {"Type": "Parallel", "Branches": [], "End": True}
    for x in ({"StartAt": "A", "States": {"A": E}}, {"StartAt": "A", "States": {"A": dict(E, End=None, Next="B", ResultPath="$.r"), "B": {"Type": "Succeed"}}},
              {"StartAt": "A", "States": {"A": {"Type": "Parallel", "End": True, "Branches": [{"StartAt": "X", "States": {"X": E}}, {"StartAt": "Y", "States": {"Y": {"Type": "Pass", "End": True}}}]}}}):
        x = json.loads(json.dumps(x)); [st.pop("End") for _, st in walk(x) if isinstance(st, dict) and "End" in st and st["End"] is None]
        if validate(ctx, sl, x) == []:
            run_accepted(ctx, x, "parallel-without-branches")
    # repaired validator defects are regression cases
    for x in ({"StartAt": "A", "States": {"A": {"Type": "Wait", "Timestamp": 5, "End": True}}}, None, 1, [], {}):
        p = validate(ctx, sl, x)
        if p == []:
            ctx.violation("validator-reports-no-problem-for-a-non-machine", dict(definition=x), None)


def replay(ctx, doc):
    from statelint.statelint import StateLint
    w = doc["witness"]
    print(json.dumps(w, indent=1)[:3000])
    if "definition" in w and "poison_kind" not in w:
        p = validate(ctx, StateLint(), w["definition"])
        print("problems:", p)
        if p == []:
            run_accepted(ctx, w["definition"], w.get("mutation", "replay"))
    elif "poison_kind" in w:
        poison_run(ctx, w["poison_kind"], w["poison"], 0)
