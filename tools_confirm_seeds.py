#!/usr/bin/env python3
"""
Confirm the seeded changes against the CURRENT /repo HEAD in a scratch worktree (never in /repo itself):
  1. the patch applies (the rebased variant when the original no longer does),
  2. the repository's own test suite gives the baseline result with the patch,
  3. the demonstration fails with the patch and passes without it.
Writes /verif/seeded/<id>/<change>/{patch.diff, demo.py, meta.json} for confirmed changes and prints a table.
Usage: tools_confirm_seeds.py [ids...]
"""
import json, os, shutil, subprocess, sys, glob

import os as _os
SRC = _os.environ.get("SEED_SRC", "/verif/seeded/_incoming")
DST = "/verif/seeded"
WT = "/tmp/lsf-confirm-wt"
PY = "/venv/bin/python"


def sh(cmd, cwd=None, timeout=900):
    p = subprocess.run(cmd, shell=True, cwd=cwd, stdout=subprocess.PIPE, stderr=subprocess.STDOUT, text=True, timeout=timeout)
    return p.returncode, p.stdout


def main():
    ids = sys.argv[1:] or sorted(os.listdir(SRC))
    sh("git -C /repo worktree remove --force %s" % WT)
    rc, out = sh("git -C /repo worktree add --detach %s HEAD" % WT)
    assert rc == 0, out
    head = sh("git -C /repo rev-parse --short HEAD")[1].strip()
    rows = []
    try:
        for pid in ids:
            for ch in sorted(glob.glob(os.path.join(SRC, pid, "change*"))):
                name = os.path.basename(ch)
                row = dict(id=pid, change=name, head=head)
                patches = [p for p in (os.path.join(ch, "patch.rebased.diff"), os.path.join(ch, "patch.diff")) if os.path.exists(p)]
                sh("git reset -q --hard && git clean -fdq", cwd=WT)
                used = None
                for p in patches:
                    if sh("git apply --check %s" % p, cwd=WT)[0] == 0:
                        used = p
                        break
                    if sh("git apply --3way --check %s" % p, cwd=WT)[0] == 0:
                        used = p
                        break
                if used is None:
                    row["applies"] = False
                    rows.append(row)
                    continue
                row["applies"], row["patch"] = True, os.path.basename(used)
                os.makedirs(os.path.join(WT, "SEED", name), exist_ok=True)
                demo = os.path.join(ch, "demo.py")
                shutil.copy(demo, os.path.join(WT, "SEED", name, "demo.py"))
                # without the patch
                rc0, out0 = sh("%s SEED/%s/demo.py" % (PY, name), cwd=WT, timeout=600)
                row["demo_clean_exit"] = rc0
                rc, out = sh("git apply %s || git apply --3way %s" % (used, used), cwd=WT)
                row["applied"] = rc == 0
                rc1, out1 = sh("%s SEED/%s/demo.py" % (PY, name), cwd=WT, timeout=600)
                row["demo_patched_exit"] = rc1
                rc2, out2 = sh("%s -m pytest -q -p no:cacheprovider --timeout=900 --continue-on-collection-errors 2>&1 | tail -1" % PY, cwd=WT)
                row["tests"] = out2.strip()
                # the patch as it applies to the current HEAD
                sh("git add -A -- asl-workflow-engine", cwd=WT)
                rc3, diff = sh("git diff --cached -- asl-workflow-engine", cwd=WT)
                row["confirmed"] = bool(row["applied"] and rc0 == 0 and rc1 != 0 and "66 passed" in out2 and "3 failed" in out2)
                if row["confirmed"]:
                    d = os.path.join(DST, pid, name)
                    os.makedirs(d, exist_ok=True)
                    open(os.path.join(d, "patch.diff"), "w").write(diff)
                    shutil.copy(demo, os.path.join(d, "demo.py"))
                    meta = json.load(open(os.path.join(ch, "meta.json")))
                    meta["confirmed_against_head"] = head
                    meta["confirmation"] = {"demo without the change": "exit %d" % rc0, "demo with the change": "exit %d" % rc1, "repository tests with the change": out2.strip(),
                                            "how": "scratch worktree of /repo HEAD; git apply; /venv/bin/python SEED/%s/demo.py; pytest" % name,
                                            "demo_output_with_change_tail": out1[-600:]}
                    old = os.path.join(d, "meta.json")
                    if os.path.exists(old):
                        prev = json.load(open(old))
                        for k in ("checks_run",):
                            if k in prev:
                                meta[k] = prev[k]
                    json.dump(meta, open(old, "w"), indent=1)
                rows.append(row)
                print(json.dumps(row), flush=True)
    finally:
        sh("git -C /repo worktree remove --force %s" % WT)
    bad = [r for r in rows if not r.get("confirmed")]
    print("confirmed %d / %d; not confirmed: %s" % (len(rows) - len(bad), len(rows), [(r["id"], r["change"]) for r in bad]))


if __name__ == "__main__":
    main()
