"""
C05  Parallel and Map joins are order-independent, complete and concurrency-bounded.

Oracles over every explored schedule of every scenario:
  J1  the execution output is the reference interpreter's (position i holds branch/item i's output)
  J2  the state after the join is entered only after every branch/iteration has finished (history order + worker replies)
  J3  every Map item is requested exactly once per task of the iterator (items carry unique ids; worker request log)
  J4  with MaxConcurrency n > 0, never more than n requests of that Map are outstanding between "engine published the
      request" and "engine was handed the reply" (a lower bound on iterations in flight, so exceeding n is a real excess)
"""
import json, copy, random, collections
from lsfverif.ref import asl as R
from lsfverif.gen import families as F, machines as G
from lsfverif.mon import scenario as S
from lsfverif.checks import _sched

ID = "C05"
ENGINE = "simworld"
LEVEL = "exploration"
RULE = ("case = (fan-out scenario, schedule): Parallel of 2..4 (thorough 6) branches and Map over 0..L items (quick L<=4, thorough L<=9) with every MaxConcurrency "
        "0..L+1; bodies are task chains and waits with item-dependent durations/latencies so completion orders vary; nesting<=2; schedules: exhaustive DFS when the "
        "scenario is small, seeded random otherwise. non-trivial = >=2 branches/items completing in an order different from index order, or 0 < MaxConcurrency < L; "
        "distinct by hash of (scenario, action sequence)")
ASSUMPTIONS = ["all branches succeed in these families (failures are C06)", "outstanding requests are a lower bound of iterations in flight: J4 can miss an excess hidden "
               "in non-task states but cannot raise a false alarm", "simulated broker fidelity (DESIGN.md section 3)"]
FLOORS = {"evaluations": 600, "schedules": 400, "nontrivial": 150, "arrival_orders": 20, "map_items_requested": 1500, "maxconcurrency_bounded_runs": 150,
          "outputs_compared": 500, "dfs_runs": 100, "out_of_index_order_completions": 100}
SHARDS = {"quick": 16, "thorough": 16}
TECHNIQUE = "reference-output oracle + worker-request-log and history-order monitors over DFS/random schedule exploration"
LEVEL_TEXT = ("Fan-out scenarios with every item count and MaxConcurrency are executed by the real engine under exhaustively enumerated (small) or sampled schedules; "
              "the output, the join's timing, exactly-once processing per item and the in-flight bound are checked on each. Held = all four oracles silent on every schedule run.")
LEVEL_NOTE = "reach = distinct schedules and distinct join arrival orders actually produced (both counted); trusts the reference interpreter for expected outputs"
DESIGN_REF = "DESIGN.md section 6, C05"

EXEC = "arn:aws:states:local:0123456789:execution:m:e0"


def make_items(n):
    return [{"id": "it%d" % i, "i": i, "w": (n - i) % 3, "items": [{"id": "it%d.%d" % (i, j), "i": j, "w": j % 2} for j in range(2)]} for i in range(n)]


def body(rng, names, nested=False):
    c = rng.random()
    if c < 0.3:
        sts = [(names(), F.T("wrap"))]
    elif c < 0.5:
        sts = [(names(), F.T("echo")), (names(), F.T("wrap"))]
    elif c < 0.7:
        sts = [(names(), {"Type": "Wait", "SecondsPath": "$.w"}), (names(), F.T("wrap"))]
    elif c < 0.85:
        sts = [(names(), F.T("lat"))]
    elif c < 0.93:
        sts = [(names(), F.P(ResultPath="$.seen", Result=True)), (names(), F.T("lat")), (names(), F.W(1))]
    else:
        # an error caught INSIDE the branch: the branch recovers (slowly) and still succeeds
        a, b, c2 = names(), names(), names()
        return {"StartAt": a, "States": {a: F.T("failodd", Catch=[{"ErrorEquals": ["States.ALL"], "Next": b, "ResultPath": "$.err"}], Next=c2),
                                         b: F.T("lat", Next=c2), c2: F.T("wrap", End=True)}}
    if nested:
        inner = {"Type": "Map", "ItemsPath": "$.items", "MaxConcurrency": rng.choice([0, 1, 2]), "ResultPath": "$.inner",
                 "ItemProcessor": F.chain([(names(), F.T("wrap"))])} if rng.random() < 0.5 else \
                {"Type": "Parallel", "ResultPath": "$.inner", "Branches": [F.chain([(names(), F.T("wrap"))]), F.chain([(names(), F.W(1)), (names(), F.P())])]}
        sts.insert(rng.randint(0, len(sts)), (names(), inner))
    return F.chain(sts)


FUNCS = {"echo": ["echo"], "wrap": ["wrap"], "lat": ["delay_by", "w"], "failodd": ["fail_if", "i", 1]}


def make_scenario(rng, kind, n, mc=None, nested=False, end=False):
    names = F.Names()
    if kind == "Parallel":
        st = {"Type": "Parallel", "Branches": [body(rng, names, nested and i == 0) for i in range(n)]}
    else:
        st = {"Type": "Map", "ItemsPath": "$.items", "ItemProcessor": body(rng, names, nested)}
        if mc is not None:
            st["MaxConcurrency"] = mc
        if rng.random() < 0.3:
            st["ItemSelector"] = {"id.$": "$$.Map.Item.Value.id", "i.$": "$$.Map.Item.Index", "w.$": "$$.Map.Item.Value.w", "items.$": "$$.Map.Item.Value.items"}
    st["ResultPath"] = "$.out"
    sts = [("Fan", st)] if end else [("Fan", st), ("After", F.T("echo") if rng.random() < 0.5 else F.P())]
    asl = F.chain(sts)
    data = {"w": 1, "items": make_items(n if kind == "Map" else 2)}
    scn = {"machines": {"m": {"asl": asl}}, "funcs": dict(FUNCS), "starts": [{"machine": "m", "name": "e0", "input": data}]}
    return scn, dict(family="join", kind=kind, n=n, mc=mc, nested=nested, end=end)


def expected(scn):
    asl, data = scn["machines"]["m"]["asl"], scn["starts"][0]["input"]
    outs = R.outcomes(asl, lambda: G.task_oracle(scn["funcs"]), data, exec_id=EXEC, exec_name="e0")
    return outs[0]


def body_task_states(asl):
    """Task states that process the top-level fan-out's own branch input / item: those directly in the body and in
    Parallel states nested in it (a nested Map iterates over other, inner items) -> {state name: function}"""
    fan = asl["States"]["Fan"]
    bodies = fan.get("Branches") or [fan.get("ItemProcessor")]
    out = {}

    def walk(machine):
        for n, st in machine["States"].items():
            if st.get("Type") == "Task":
                out[n] = st["Resource"].rsplit(":", 1)[1]
            elif st.get("Type") == "Parallel":
                for b in st["Branches"]:
                    walk(b)
    for b in bodies:
        walk(b)
    return out


def judge(ctx, run, meta, sched, exp):
    w = run.world
    arn = run.execs[0]
    st, out, err, t = run.outcomes.get(arn, ("NONE", None, None, None))
    wit = lambda extra: S.witness_of(run, dict(extra, meta=meta, schedule_name=sched))
    # J1
    ctx.count("outputs_compared")
    if not (st == exp.status and R.matches(exp.output, out)):
        ctx.violation("J1-join-result-differs-from-reference", wit(dict(expected=repr(exp), engine=[st, out, err])), None)
    asl = run.scn["machines"]["m"]["asl"]
    h = run.histories.get(arn) or []
    # arrival order at the join: order in which the branches' last states exited (history order)
    fan = asl["States"]["Fan"]
    last_states = []
    if "Branches" in fan:
        last_states = [[n for n, s in b["States"].items() if s.get("End")][0] for b in fan["Branches"]]
    order = []
    for e in h:
        if e["type"].endswith("StateExited"):
            n = e["stateExitedEventDetails"]["name"]
            if n in last_states:
                order.append(last_states.index(n))
            elif "ItemProcessor" in fan and fan["ItemProcessor"]["States"].get(n, {}).get("End"):
                try:
                    o = json.loads(e["stateExitedEventDetails"]["output"])
                    order.append(o.get("in", o).get("i") if isinstance(o, dict) else None)
                except Exception:
                    pass
    ctx.distinct("arrival_orders", [meta["kind"], meta["n"], order])
    if order != sorted(order, key=lambda x: (x is None, x)):
        ctx.count("out_of_index_order_completions")
        ctx.nontrivial([_sched.scn_key(run.scn), _sched.schedule_hash(run)])
    # J2: nothing of "After" before every body state of the fan-out has exited / every request was answered
    if not meta.get("end") and st == "SUCCEEDED":
        idx_after = next((i for i, e in enumerate(h) if (e.get("stateEnteredEventDetails") or {}).get("name") == "After"), None)
        exits = [i for i, e in enumerate(h) if e["type"].endswith("StateExited") and e["stateExitedEventDetails"]["name"] not in ("Fan", "After")]
        if idx_after is None or (exits and max(exits) > idx_after):
            ctx.violation("J2-state-after-join-entered-before-all-branches-finished", wit(dict(types=[e["type"] for e in h][:80])), None)
        pub = next((r for r in w.engine_ops() if r["op"] == "basic_publish" and r.get("exchange") == "" and isinstance(r.get("body"), (str, bytes))
                    and '"Name": "After"' in (r["body"] if isinstance(r["body"], str) else r["body"].decode())), None)
        if pub is not None:
            asked = {r["props"]["correlation_id"] for r in w.broker.oplog[:pub["n"]] if r["op"] == "basic_publish" and (r["conn"] or "").startswith("engine:")
                     and r.get("exchange") == "" and r["props"].get("reply_to")}
            late = [r for r in w.broker.oplog[pub["n"]:] if r["op"] == "deliver" and (r["queue"] or "").startswith("asl_workflow_reply_to")
                    and r.get("correlation_id") in asked]
            if late:
                ctx.violation("J2-reply-still-outstanding-when-successor-was-published", wit(dict(late=len(late))), None)
    # J3: every item is requested exactly as often as the reference requests it (once per task state it passes through)
    tasks = body_task_states(asl)
    if meta["kind"] == "Map" and st == "SUCCEEDED":
        ids = [it["id"] for it in run.scn["starts"][0]["input"]["items"]]

        def pid_of(p):
            pid = p.get("id") if isinstance(p, dict) else None
            if pid is None and isinstance(p, dict) and isinstance(p.get("in"), dict):
                pid = p["in"].get("id")
            return pid
        want = collections.Counter((r["fn"], pid_of(r["payload"])) for r in exp.requests if pid_of(r["payload"]) in ids)
        got = collections.Counter((fn, pid_of(r["payload"])) for fn, rs in run.requests.items() for r in rs if pid_of(r["payload"]) in ids)
        ctx.count("map_items_requested", sum(got.values()))
        if want != got:
            diff = {"%s/%s" % k: (want.get(k, 0), got.get(k, 0)) for k in set(want) | set(got) if want.get(k, 0) != got.get(k, 0)}
            ctx.violation("J3-map-item-not-processed-exactly-once", wit(dict(expected_vs_engine_per_function_and_item=diff)), None)
    # J4: in-flight bound
    mc = meta.get("mc")
    if meta["kind"] == "Map" and mc and mc > 0 and not meta.get("nested"):
        ctx.count("maxconcurrency_bounded_runs")
        if mc < meta["n"]:
            ctx.nontrivial([_sched.scn_key(run.scn), _sched.schedule_hash(run)])
        inflight, peak = 0, 0
        fns = set(tasks.values())
        for r in w.broker.oplog:
            if r["op"] == "basic_publish" and (r["conn"] or "").startswith("engine:") and r.get("exchange") == "" and r.get("routing_key") in fns:
                inflight += 1
                peak = max(peak, inflight)
            elif r["op"] == "deliver" and (r["queue"] or "").startswith("asl_workflow_reply_to"):
                inflight -= 1
        ctx.count("inflight_peak_sum", peak)
        if peak > mc:
            ctx.violation("J4-more-iterations-in-flight-than-MaxConcurrency", wit(dict(peak=peak, max_concurrency=mc)), None)
    if ctx.counters["evaluations"] % 173 == 1:
        ctx.sample(dict(meta=meta, schedule=sched, arrival_order=order, output=out, requests={fn: [(r["t"], (r["payload"] or {}).get("id") if isinstance(r["payload"], dict) else None) for r in rs][:8]
                                                                                               for fn, rs in run.requests.items()}))


def explore(ctx, scn, meta, n_random, key, dfs=0):
    try:
        exp = expected(scn)
    except R.Unspecified:
        ctx.count("unspecified")
        return
    j = lambda c, run, m, s: judge(c, run, m, s, exp)
    if dfs:
        _sched.run_dfs(ctx, scn, meta, j, dfs, monitors=("notes",))
    else:
        _sched.run_schedules(ctx, scn, meta, j, n_random, key, monitors=("notes",))


def run(ctx):
    L = ctx.pick(4, 9)
    i = 0
    # every length 0..L x every MaxConcurrency 0..L+1 (Map), 2..4(6) branches (Parallel)
    for n in range(0, L + 1):
        for mc in [None] + list(range(0, n + 2)):
            i += 1
            if not ctx.mine(i):
                continue
            rng = ctx.rng("map", n, mc)
            scn, meta = make_scenario(rng, "Map", n, mc, nested=False, end=(i % 5 == 0))
            explore(ctx, scn, meta, ctx.pick(6, 40), ["c05m", n, mc])
    # iterations that catch an error INSIDE the iterator and recover slowly, with batching
    for n in range(2, L + 1):
        for mc in range(1, n + 1):
            i += 1
            if not ctx.mine(i):
                continue
            rng = ctx.rng("recover", n, mc)
            names = F.Names()
            a, b, c2 = names(), names(), names()
            proc = {"StartAt": a, "States": {a: F.T("failodd", Catch=[{"ErrorEquals": ["States.ALL"], "Next": b, "ResultPath": "$.err"}], Next=c2),
                                             b: F.T("slow3", Next=c2), c2: F.T("wrap", End=True)}}
            st = {"Type": "Map", "ItemsPath": "$.items", "ItemProcessor": proc, "MaxConcurrency": mc, "ResultPath": "$.out"}
            scn = {"machines": {"m": {"asl": F.chain([("Fan", st), ("After", F.P())])}}, "funcs": dict(FUNCS, slow3=["slow", 3]),
                   "starts": [{"machine": "m", "name": "e0", "input": {"w": 0, "items": make_items(n)}}]}
            ctx.count("recovering_iteration_scenarios")
            explore(ctx, scn, dict(family="join-recover", kind="Map", n=n, mc=mc, nested=False, end=False), ctx.pick(5, 30), ["c05r", n, mc])
    for n in range(2, ctx.pick(4, 6) + 1):
        for v in range(ctx.pick(3, 8)):
            i += 1
            if not ctx.mine(i):
                continue
            rng = ctx.rng("par", n, v)
            scn, meta = make_scenario(rng, "Parallel", n, nested=(v % 3 == 2), end=(v % 4 == 1))
            explore(ctx, scn, meta, ctx.pick(6, 40), ["c05p", n, v])
    # nested fan-outs
    for v in range(ctx.pick(16, 120)):
        i += 1
        if not ctx.mine(i):
            continue
        rng = ctx.rng("nest", v)
        kind = rng.choice(["Map", "Parallel"])
        n = rng.randint(2, 3)
        scn, meta = make_scenario(rng, kind, n, rng.choice([None, 1, 2]) if kind == "Map" else None, nested=True)
        explore(ctx, scn, meta, ctx.pick(4, 25), ["c05n", v])
    # three levels (Map > Map > Parallel) with distinct data at every position, and a fan-out that is entered again in the same execution
    # (a Catcher whose Next is the fan-out itself): the join of one instance must never see the results of another
    for v in range(ctx.pick(10, 60)):
        i += 1
        if not ctx.mine(i):
            continue
        rng = ctx.rng("deep", v)
        names = F.Names()
        if v % 2 == 0:
            n_out, n_in = rng.randint(2, 3), rng.randint(2, 3)
            inner_par = {"Type": "Parallel", "Branches": [F.chain([(names(), F.T(rng.choice(["wrap", "lat"])))]), F.chain([(names(), F.T("wrap")), (names(), F.P())])]}
            inner = {"Type": "Map", "ItemsPath": "$.items", "ItemProcessor": F.chain([(names(), inner_par)])}
            if rng.random() < 0.5:
                inner["MaxConcurrency"] = rng.randint(1, n_in)
            outer = {"Type": "Map", "ItemsPath": "$.items", "ItemProcessor": F.chain([(names(), F.P()), (names(), inner)]), "ResultPath": "$.out"}
            if rng.random() < 0.5:
                outer["MaxConcurrency"] = rng.randint(1, n_out)
            items = [{"id": "o%d" % a, "i": a, "w": a % 2, "items": [{"id": "o%d.i%d" % (a, b), "i": b, "w": (a + b) % 3} for b in range(n_in)]} for a in range(n_out)]
            scn = {"machines": {"m": {"asl": F.chain([("Fan", outer), ("After", F.P())])}}, "funcs": dict(FUNCS), "starts": [{"machine": "m", "name": "e0", "input": {"w": 0, "items": items}}]}
            meta = dict(family="join-depth3", kind="Map", n=n_out, mc=outer.get("MaxConcurrency"), nested=True, end=False)
            ctx.count("depth3_scenarios")
        else:
            n = 1         # (a single iteration / branch: with live siblings the handled failure would run into C06's listed finding instead)
            proc = F.chain([(names(), F.T("once")), (names(), F.T("wrap"))])       # "once": fails the first time it sees a payload, succeeds afterwards
            fan = {"Type": "Map", "ItemsPath": "$.items", "ItemProcessor": proc, "ResultPath": "$.out",
                   "Catch": [{"ErrorEquals": ["States.ALL"], "ResultPath": "$.err", "Next": "Fan"}]} if rng.random() < 0.5 else \
                  {"Type": "Parallel", "Branches": [F.chain([(names(), F.T("once")), (names(), F.T("wrap"))])], "ResultPath": "$.out",
                   "Catch": [{"ErrorEquals": ["States.ALL"], "ResultPath": "$.err", "Next": "Fan"}]}
            scn = {"machines": {"m": {"asl": F.chain([("Fan", fan), ("After", F.P())])}}, "funcs": dict(FUNCS, once=["flaky", ["Once.Err"]]),
                   "starts": [{"machine": "m", "name": "e0", "input": {"w": 0, "items": make_items(n)}}]}
            meta = dict(family="join-reentered", kind=fan["Type"], n=n, mc=None, nested=False, end=False)
            ctx.count("reentered_fanout_scenarios")
        explore(ctx, scn, meta, ctx.pick(5, 30), ["c05d", v])
    i = child_join_family(ctx, i)
    # exhaustive schedules: 2-3 single-task branches / items
    for j, (kind, n, mc) in enumerate([("Parallel", 2, None), ("Parallel", 3, None), ("Map", 2, None), ("Map", 3, None), ("Map", 3, 1), ("Map", 3, 2), ("Map", 2, 1)]):
        i += 1
        if not ctx.mine(i):
            continue
        names = F.Names()
        if kind == "Parallel":
            st = {"Type": "Parallel", "Branches": [F.chain([(names(), F.T("wrap"))]) for _ in range(n)], "ResultPath": "$.out"}
        else:
            st = {"Type": "Map", "ItemsPath": "$.items", "ItemProcessor": F.chain([(names(), F.T("wrap"))]), "ResultPath": "$.out"}
            if mc:
                st["MaxConcurrency"] = mc
        scn = {"machines": {"m": {"asl": F.chain([("Fan", st), ("After", F.P())])}}, "funcs": dict(FUNCS),
               "starts": [{"machine": "m", "name": "e0", "input": {"w": 0, "items": make_items(n)}}]}
        explore(ctx, scn, dict(family="join-dfs", kind=kind, n=n, mc=mc, nested=False, end=False), 0, None, dfs=ctx.pick(200, 6000))


def child_join_family(ctx, i0):
    """Iterations that each launch a synchronous child execution (no Name given: the engine names the children), in a Map, in a Map nested in a Map and in
    Parallel branches: every child's output lands at the position of the iteration that launched it, every item is worked on exactly once."""
    import random as _r
    from lsfverif.sim.world import make_random
    child = {"StartAt": "Cw", "States": {"Cw": F.T("lat", End=True)}}
    i = i0
    for shape in ("map", "map-in-map", "map-in-map-mc", "parallel"):
        for form in ("startExecution.sync:2", "startExecution.sync"):
            for v in range(ctx.pick(2, 8)):
                i += 1
                if not ctx.mine(i):
                    continue
                rng = ctx.rng("childjoin", shape, form, v)
                launch = {"Type": "Task", "Resource": "arn:aws:states:local:0123456789:states:" + form,
                          "Parameters": {"StateMachineArn": "arn:aws:states:local:0123456789:stateMachine:child", "Input.$": "$"}, "OutputPath": "$.Output", "End": True}
                leaf = {"StartAt": "Launch", "States": {"Launch": launch}}
                n_out, n_in = rng.randint(2, 3), rng.randint(2, 3)
                if shape == "map":
                    items = [{"id": "o%d" % a, "w": a % 3} for a in range(n_out)]
                    fan = {"Type": "Map", "ItemsPath": "$.items", "ItemProcessor": leaf}
                    flat = [[it] for it in items]
                elif shape == "parallel":
                    items = None
                    fan = {"Type": "Parallel", "Branches": [{"StartAt": "L%d" % b, "States": {"L%d" % b: dict(launch, Parameters=dict(launch["Parameters"], **{"Input.$": "$.b%d" % b}))}}
                                                            for b in range(n_out)]}
                else:
                    items = [{"id": "o%d" % a, "w": 0, "items": [{"id": "o%d.i%d" % (a, b), "w": (a + b) % 3} for b in range(n_in)]} for a in range(n_out)]
                    inner = {"Type": "Map", "ItemsPath": "$.items", "ItemProcessor": leaf, "End": True}
                    if shape.endswith("mc"):
                        inner["MaxConcurrency"] = rng.randint(1, n_in)
                    fan = {"Type": "Map", "ItemsPath": "$.items", "ItemProcessor": {"StartAt": "Inner", "States": {"Inner": inner}}}
                fan["End"] = True
                data = {"items": items} if items is not None else {"b%d" % b: {"id": "p%d" % b, "w": b % 3} for b in range(n_out)}
                want_of = lambda it: {"fn": "lat", "in": it}
                if shape == "map":
                    want = [want_of(it) for it in items]
                elif shape == "parallel":
                    want = [want_of(data["b%d" % b]) for b in range(n_out)]
                else:
                    want = [[want_of(x) for x in it["items"]] for it in items]
                if form.endswith(".sync"):
                    enc = lambda x: [enc(y) for y in x] if isinstance(x, list) else json.dumps(x)
                scn = {"machines": {"m": {"asl": {"StartAt": "Fan", "States": {"Fan": fan}}}, "child": {"asl": child}}, "funcs": dict(FUNCS),
                       "starts": [{"machine": "m", "name": "e0", "input": data}]}
                for sno in range(ctx.pick(3, 8)):
                    r = _r.Random("c05cj-%d-%d" % (i, sno))
                    pol = None if sno == 0 else (lambda w, r=r: make_random(r))
                    run = S.execute(scn, policy=pol, seed=ctx.seed)
                    try:
                        _sched.observe(ctx, run)
                        ctx.evaluation(); ctx.count("child_join_runs"); ctx.count("joins_checked")
                        ctx.distinct("schedules", [_sched.scn_key(scn), _sched.schedule_hash(run)]); ctx.nontrivial([shape, form, v, sno])
                        st, out, err, t = run.outcomes.get(run.execs[0], ("NONE", None, None, None))
                        got = out
                        if form.endswith(".sync") and st == "SUCCEEDED":
                            dec = lambda x: [dec(y) for y in x] if isinstance(x, list) else (json.loads(x) if isinstance(x, str) else x)
                            try:
                                got = dec(out)
                            except Exception:
                                got = out
                        reqs = sorted(json.dumps(q["payload"], sort_keys=True) for q in run.requests.get("lat", []))
                        leaves = [x for row in want for x in (row if isinstance(row, list) else [row])]
                        exp_reqs = sorted(json.dumps(x["in"], sort_keys=True) for x in leaves)
                        wit = lambda extra: S.witness_of(run, dict(extra, family="child-join", shape=shape, form=form, expected=want, engine=[st, out, err]))
                        if not (st == "SUCCEEDED" and got == want):
                            ctx.violation("J1-join-result-differs-from-reference", wit({}), None)
                        if reqs != exp_reqs:
                            ctx.violation("J3-item-not-processed-exactly-once", wit(dict(requests=reqs, expected_requests=exp_reqs)), None)
                    finally:
                        S.close(run)
    return i


def witnesses(ctx):
    pass


def replay(ctx, doc):
    w = doc["witness"]
    if w.get("family") == "child-join":
        run = S.execute(w["scenario"], labels=w.get("schedule"), seed=w.get("seed", 0), monitors=("notes",))
        print("expected", json.dumps(w["expected"]))
        print("engine  ", run.outcomes, "requests", sorted(json.dumps(q["payload"], sort_keys=True) for q in run.requests.get("lat", [])))
        S.close(run)
        return
    exp = expected(w["scenario"])
    run = S.execute(w["scenario"], labels=w.get("schedule"), seed=w.get("seed", 0), monitors=("notes",))
    print("expected", exp, "engine", run.outcomes)
    judge(ctx, run, w["meta"], "replay", exp)
    S.close(run)
