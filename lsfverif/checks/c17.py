"""
C17  Names and ARNs round-trip and link executions to their state machine.

  A  parse_arn / create_arn are mutually inverse on every ARN the API can mint (exhaustive short names over an alphabet with every
     ARN-significant or forbidden character, partition/service/region/account/resource-type combinations)
  V  a name the API accepts (valid_name on both front ends; real CreateStateMachine / StartExecution handlers) never breaks A
  L  the execution ARN returned by StartExecution identifies the state machine that runs it at every derivation site: the record, the
     notification (subject, detail, resources), EXPRESS details, DescribeStateMachineForExecution, ListExecutions, the record re-created
     after a restart, and the back-stop's synthesised event
"""
import json, itertools, copy, random
from lsfverif.mon import scenario as S
from lsfverif.sim.world import World, EPOCH0, ACCOUNT, ROLE
from lsfverif.gen import families as F

ID = "C17"
ENGINE = "simworld"
LEVEL = "exploration"
RULE = ("case = name / ARN string or (state machine name, execution name, region, type) scenario; quick: all strings of length<=2 over a 16-character alphabet (letters, "
        "digit, : / . - _ space newline tab and rejected punctuation) plus lengths 79..81, every ARN part combination, ~120 engine-level name pairs incl. restart and "
        "back-stop sites; thorough: random names up to length 81 over the full alphabet. non-trivial = name with a non-alphanumeric accepted character, or a derivation site "
        "other than the record; distinct by the string / scenario")
ASSUMPTIONS = ["'accepted' means accepted by the real CreateStateMachine/StartExecution handlers (HTTP 200)", "execution names are unique per world"]
FLOORS = {"site:child-execution": 20, "prefix_named_machines": 30, "same_name_twin_machines": 30, "evaluations": 1500, "names_judged": 250, "accepted_names": 60, "rejected_names": 150, "arn_roundtrips": 1000, "engine_level_runs": 80, "derivation_sites_compared": 500,
          "nontrivial": 300, "site:restart-recreated-record": 10, "site:express": 10, "site:other-region": 10}
SHARDS = {"quick": 16, "thorough": 16}
TECHNIQUE = "round-trip contracts on arn.py + REST acceptance oracle + cross-surface identifier monitor over real executions (incl. restart recovery and back-stop)"
LEVEL_TEXT = ("The ARN functions are checked as inverse of each other on an exhaustive small string space; every name the real API handlers accept is run through a real "
              "execution and all derived identifiers are compared with what StartExecution returned. Held = no round-trip break and no divergent identifier.")
LEVEL_NOTE = "the forbidden-character policy itself is the repository's (AWS's) list; what is decided is that acceptance implies the round trips"
DESIGN_REF = "DESIGN.md section 6, C17"

ALPHA = ["a", "Z", "7", ":", "/", ".", "-", "_", " ", "\n", "\t", "*", "?", "#", "$", "\\"]


def check_arn_functions(ctx):
    from asl_workflow_engine.arn import parse_arn, create_arn
    i = 0
    for partition, service, region, account in itertools.product(["aws", "aws-cn"], ["states", "iam", "rpcmessage"], ["local", "eu-west-1", ""], [ACCOUNT, ""]):
        for rtype in ["stateMachine", "execution", "function", "role", None]:
            for res in ["m", "a-b_c", "m:e", "x.y", "m:e-1", "A_9.z", "x" * 80, "m:" + "y" * 80]:
                i += 1
                if not ctx.mine(i):
                    continue
                ctx.evaluation(); ctx.count("arn_roundtrips")
                parts = dict(arn="arn", partition=partition, service=service, region=region, account=account, resource=res, resource_type=rtype)
                s = create_arn(**parts)
                back = parse_arn(s)
                again = create_arn(back)
                if rtype is None and ":" in res:
                    continue        # without a resource type the first ':' of the resource is (legitimately) read as one
                if again != s:
                    ctx.violation("create(parse(create(parts))) != create(parts)", dict(parts=parts, arn=s, parsed=back, rebuilt=again), None)
                if rtype is not None and ":" not in res and "/" not in res and back != parts:
                    ctx.violation("parse_arn(create_arn(parts)) != parts", dict(parts=parts, arn=s, parsed=back), None)
                ctx.distinct("arns", s)


def judge_name(ctx, w, name, kind, front="asyncio"):
    """Run the name through the real handlers; accepted => the minted ARN must split back into what it was built from."""
    from asl_workflow_engine.arn import parse_arn, create_arn
    ctx.evaluation(); ctx.count("names_judged"); ctx.count("names_judged_through:" + front)
    if kind == "machine":
        code, body = w.api("CreateStateMachine", {"name": name, "definition": json.dumps({"StartAt": "A", "States": {"A": {"Type": "Pass", "End": True}}}), "roleArn": ROLE},
                           flavour=front)
        if code != 200:
            ctx.count("rejected_names")
            return None
        arn = body["stateMachineArn"]
        ctx.count("accepted_names")
        p = parse_arn(arn)
        ok = p["resource_type"] == "stateMachine" and p["resource"] == name and create_arn(p) == arn
        if not ok:
            ctx.violation("accepted-state-machine-name-breaks-arn-round-trip", dict(name=name, arn=arn, parsed=p, front_end=front), None)
        w.api("DeleteStateMachine", {"stateMachineArn": arn}, flavour=front)
        return arn
    else:
        sm = w.sm_arn("base")
        code, body = w.api("StartExecution", {"stateMachineArn": sm, "name": name, "input": "{}"}, flavour=front)
        if code != 200:
            ctx.count("rejected_names")
            return None
        ctx.count("accepted_names")
        arn = body["executionArn"]
        # the engine derives the state machine ARN and the execution name back from the execution ARN (EXPRESS details, recovery, back-stop)
        split = arn.rpartition(":")
        p = parse_arn(split[0]); p["resource_type"] = "stateMachine"
        derived_sm, derived_name = create_arn(p), split[2]
        if derived_sm != sm or derived_name != name:
            ctx.violation("accepted-execution-name-breaks-derivation-of-state-machine", dict(name=name, executionArn=arn, derived_state_machine=derived_sm, derived_name=derived_name, front_end=front), None)
        return arn


def names_space(ctx):
    for n in range(0, 3):
        for combo in itertools.product(ALPHA, repeat=n):
            yield "".join(combo)
    for L in (1, 79, 80, 81):
        yield "x" * L
        yield "x" * (L - 1) + "-"
    yield "a" * 40 + "\n" + ":b"
    yield "ok\nname"
    yield "tab\tname"
    for c in ":/ \n":
        yield "name" + c            # ... as the last character
        yield "x" * 79 + c


def check_names(ctx):
    i = 0
    w = None
    try:
        for name in names_space(ctx):
            for kind, front in (("machine", "asyncio"), ("execution", "asyncio"), ("machine", "blocking"), ("execution", "blocking")):
                i += 1
                if not ctx.mine(i):
                    continue
                if w is None or ctx.counters["names_judged"] % 150 == 149:
                    if w is not None:
                        w.close()
                    w = World(seed=ctx.seed)
                    w.create_machine("base", {"StartAt": "A", "States": {"A": {"Type": "Pass", "End": True}}})
                judge_name(ctx, w, name, kind, front)
                if any(not c.isalnum() for c in name):
                    ctx.nontrivial([kind, name, front])
        n_rand = ctx.pick(0, 40000)
        for k in range(n_rand):
            i += 1
            if not ctx.mine(i):
                continue
            rng = ctx.rng("name", k)
            name = "".join(rng.choice(ALPHA + list("bcdefgXY0123+=@!,;()é")) for _ in range(rng.choice([1, 2, 3, 5, 17, 80, 81])))
            if w is None or ctx.counters["names_judged"] % 150 == 149:
                if w is not None:
                    w.close()
                w = World(seed=ctx.seed)
                w.create_machine("base", {"StartAt": "A", "States": {"A": {"Type": "Pass", "End": True}}})
            judge_name(ctx, w, name, rng.choice(["machine", "execution"]), rng.choice(["asyncio", "blocking"]))
    finally:
        if w is not None:
            w.close()


GOOD_NAMES = ["m", "my-machine", "a_b", "x.y", "A1", "9", "m-", "_", "a.b.c", "x" * 80, "é", "名前", "a+b", "a=b", "a@b", "(x)", "a!b", "it's"]


def child_execution_site(ctx, rng, k, mname, ename):
    """Executions started by a startExecution Task: the child's ARN is minted from the CHILD state machine's ARN (region, account, name),
    whatever region the Task's Resource ARN is written for (the documented form has none), and every surface of the child names the child."""
    res_region = rng.choice(["", "local", "us-east-1"])
    child_region = rng.choice(["local", "eu-west-1", "local"])
    form = rng.choice(["startExecution", "startExecution.sync", "startExecution.sync:2"])
    child_type = rng.choice(["STANDARD", "STANDARD", "EXPRESS"]) if form == "startExecution" else "STANDARD"
    restart = form != "startExecution" and rng.random() < 0.4
    ctx.evaluation(); ctx.count("engine_level_runs"); ctx.count("site:child-execution")
    case = dict(site="child-execution", child_machine=mname, child_execution=ename, resource_region=res_region, child_region=child_region, form=form, child_type=child_type, restart=restart)
    ctx.nontrivial(case)
    with World(seed=ctx.seed) as w:
        e = next(iter(w.engines.values()))
        csm = "arn:aws:states:%s:%s:stateMachine:%s" % (child_region, ACCOUNT, mname)
        rec = lambda arn, name, d, t: {"creationDate": w.clock.now, "definition": d, "name": name, "roleArn": ROLE, "stateMachineArn": arn, "updateDate": w.clock.now,
                                       "status": "ACTIVE", "type": t, "loggingConfiguration": {"level": "OFF"}}
        e.se.asl_store[csm] = rec(csm, mname, F.chain([("C1", F.T("echo")), ("C2", F.W(2))]), child_type)
        psm = "arn:aws:states:local:%s:stateMachine:parent" % ACCOUNT
        call = {"Type": "Task", "Resource": "arn:aws:states:%s::states:%s" % (res_region, form),
                "Parameters": {"StateMachineArn": csm, "Input": {"x": 1}, "Name": ename}, "ResultPath": "$.r", "End": True}
        e.se.asl_store[psm] = rec(psm, "parent", {"StartAt": "Call", "States": {"Call": call}}, "STANDARD")
        beh = __import__("lsfverif.gen.machines", fromlist=["worker_behaviour"]).worker_behaviour(dict(F.FUNCS))
        for fn in F.FUNCS:
            w.add_worker(fn, beh)
        pe = w.start_event(psm, "pe", {"k": 1})
        if restart:
            w.run(until=lambda world: any(wk.requests for wk in world.workers.values()))
            w.restart_engine("i1")
        w.run()
        want_ex = csm.replace(":stateMachine:", ":execution:") + ":" + ename
        seen = set()
        for n in w.notifications:
            d = n["body"]["detail"]
            if d["name"] == ename or d["executionArn"] == want_ex:
                seen.add((d["stateMachineArn"], d["name"], d["executionArn"], n["subject"].rsplit(".", 1)[0], n["body"]["resources"][0]))
        ctx.count("derivation_sites_compared", len(seen))
        if not seen:
            ctx.violation("child-execution-left-no-notification", dict(case), None)
        for v in seen:
            if v != (csm, ename, want_ex, csm, want_ex):
                ctx.violation("identifier-derived-differently:child-notification", dict(case, expected=[csm, ename, want_ex], derived=list(v)), None)
        st, out, err, t = w.outcome(pe)
        r = (out or {}).get("r") if isinstance(out, dict) else None
        got = (r or {}).get("executionArn") or (r or {}).get("ExecutionArn")
        if st == "SUCCEEDED" and got != want_ex:
            ctx.violation("identifier-derived-differently:launching-task-result", dict(case, expected=want_ex, result=r), None)
        if child_type == "STANDARD":
            eng = next(iter(w.engines.values()))
            crec = eng.se.executions.get(want_ex)
            if not crec or crec.get("stateMachineArn") != csm:
                others = [k2 for k2 in eng.se.executions.keys() if k2.endswith(":" + ename)]
                ctx.violation("identifier-derived-differently:child-record", dict(case, expected=want_ex, record=dict(crec) if crec else None, records_with_that_name=others), None)
            code, b = w.api("ListExecutions", {"stateMachineArn": csm})
            if code != 200 or not any(x["executionArn"] == want_ex for x in b.get("executions", [])):
                ctx.violation("execution-not-listed-under-its-state-machine", dict(case, listed=b), None)


def engine_level(ctx, k):
    rng = ctx.rng("eng", k)
    mname, ename = rng.choice(GOOD_NAMES), rng.choice(GOOD_NAMES)
    site = ["plain", "express", "restart-recreated-record", "other-region", "backstop", "plain", "child-execution", "child-execution"][k % 8]
    typ = "EXPRESS" if site == "express" else "STANDARD"
    region = "eu-west-1" if site == "other-region" else "local"
    asl = F.chain([("P0", F.P()), ("A", F.T("echo")), ("B", F.W(2)), ("C", F.P())])
    if site == "backstop":
        # a caught fan-out failure with a live sibling leaves join state behind; the back-stop later synthesises an event from the ARN
        asl = {"StartAt": "Fan", "States": {"Fan": {"Type": "Parallel", "Branches": [F.chain([("X", {"Type": "Fail", "Error": "E", "Cause": "c"})]), F.chain([("Y", F.T("slow3")), ("Y2", F.W(1))])],
                                                    "Catch": [{"ErrorEquals": ["States.ALL"], "Next": "R", "ResultPath": "$.e"}], "Next": "R"}, "R": F.P(End=True)}}
    if site == "child-execution":
        return child_execution_site(ctx, rng, k, mname, ename)
    ctx.evaluation(); ctx.count("engine_level_runs"); ctx.count("site:" + site)
    case = dict(machine=mname, execution=ename, site=site, type=typ, region=region)
    ctx.nontrivial(case)
    with World(seed=ctx.seed) as w:
        from lsfverif.mon.monitors import NotificationMonitor
        sm = "arn:aws:states:%s:%s:stateMachine:%s" % (region, ACCOUNT, mname)
        e = next(iter(w.engines.values()))
        e.se.asl_store[sm] = {"creationDate": w.clock.now, "definition": asl, "name": mname, "roleArn": ROLE, "stateMachineArn": sm, "updateDate": w.clock.now,
                              "status": "ACTIVE", "type": typ, "loggingConfiguration": {"level": "OFF"}}
        beh = __import__("lsfverif.gen.machines", fromlist=["worker_behaviour"]).worker_behaviour(dict(F.FUNCS))
        for fn in F.FUNCS:
            w.add_worker(fn, beh)
        # a state machine of the same NAME in another account or region, exercised first through the same derivation sites: nothing derived
        # from an execution ARN may be keyed by the name alone
        twin = None
        if k % 2 == 1:
            t_region, t_account = (region, "999") if rng.random() < 0.5 else ("ap-south-1" if region == "local" else "local", ACCOUNT)
            tsm = "arn:aws:states:%s:%s:stateMachine:%s" % (t_region, t_account, mname)
            e.se.asl_store[tsm] = dict(e.se.asl_store[sm], stateMachineArn=tsm, roleArn="arn:aws:iam::%s:role/r" % t_account)
            code, body = w.api("StartExecution", {"stateMachineArn": tsm, "name": ename, "input": json.dumps({"x": 0})})
            if code != 200:
                ctx.violation("well-formed-names-refused", dict(case, code=code, body=body), None)
                return
            twin = (tsm, body["executionArn"])
            ctx.count("same_name_twin_machines")
            case["twin"] = tsm
            if site not in ("restart-recreated-record",):
                w.run()
                if site == "backstop":
                    w.advance(w.execution_ttl + 130); w.run()
        code, body = w.api("StartExecution", {"stateMachineArn": sm, "name": ename, "input": json.dumps({"x": 1})})
        if code != 200:
            ctx.violation("well-formed-names-refused", dict(case, code=code, body=body), None)
            return
        ex = body["executionArn"]
        # the returned execution ARN must itself identify the state machine (same partition/region/account/name)
        from asl_workflow_engine.arn import parse_arn, create_arn
        split = ex.rpartition(":")
        pp = parse_arn(split[0]); pp["resource_type"] = "stateMachine"
        if create_arn(pp) != sm or split[2] != ename:
            ctx.violation("StartExecution-returned-an-ARN-that-does-not-identify-its-state-machine", dict(case, stateMachineArn=sm, executionArn=ex), None)
        if site == "restart-recreated-record":
            # let the execution get into its Task, then restart: the record is re-created from the ARN alone
            w.run(until=lambda world: any(wk.requests for wk in world.workers.values()))
            w.restart_engine("i1")
        w.run()
        if site == "backstop":
            w.advance(w.execution_ttl + 130); w.run()
        sites = {}
        if twin:
            # the twin's own surfaces must name the twin
            for n in w.notifications:
                d = n["body"]["detail"]
                if d["executionArn"] == twin[1] and d["stateMachineArn"] != twin[0]:
                    ctx.violation("identifier-derived-differently:notification.detail", dict(case, returned_by_StartExecution=[twin[0], ename, twin[1]],
                                                                                             derived=[d["stateMachineArn"], d["name"], d["executionArn"]]), None)
            trec = next(iter(w.engines.values())).se.executions.get(twin[1])
            if trec and trec["stateMachineArn"] != twin[0]:
                ctx.violation("identifier-derived-differently:record", dict(case, returned_by_StartExecution=[twin[0], ename, twin[1]], derived=dict(trec)), None)
        for n in w.notifications:
            d = n["body"]["detail"]
            if d["executionArn"] != ex and (twin or d["name"] != ename):
                continue
            sites.setdefault("notification.detail", set()).add((d["stateMachineArn"], d["name"], d["executionArn"]))
            sites.setdefault("notification.subject", set()).add((n["subject"].rsplit(".", 1)[0], ename, ex))
            sites.setdefault("notification.resources", set()).add((sm, ename, n["body"]["resources"][0]))
        eng = next(iter(w.engines.values()))
        rec = eng.se.executions.get(ex)
        if rec:
            sites.setdefault("record", set()).add((rec["stateMachineArn"], rec["name"], rec["executionArn"]))
            code, b = w.api("DescribeStateMachineForExecution", {"executionArn": ex})
            if code == 200:
                sites.setdefault("DescribeStateMachineForExecution", set()).add((b["stateMachineArn"], ename, ex))
            else:
                ctx.violation("DescribeStateMachineForExecution-fails-for-recorded-execution", dict(case, code=code, body=b, record=dict(rec)), None)
            # a state machine whose name merely BEGINS with this one's name, with an execution of its own: identifiers are compared as wholes
            if len(mname) <= 70:
                sm_long = "arn:aws:states:%s:%s:stateMachine:%s" % (region, ACCOUNT, mname + "-eu")
                e.se.asl_store[sm_long] = dict(e.se.asl_store[sm], stateMachineArn=sm_long, name=mname + "-eu", type="STANDARD", definition=F.chain([("Q", F.P())]))
                c2, b2 = w.api("StartExecution", {"stateMachineArn": sm_long, "name": "other", "input": "{}"})
                w.run()
                ctx.count("prefix_named_machines")
            code, b = w.api("ListExecutions", {"stateMachineArn": sm})
            listed = [x for x in (b.get("executions", []) if code == 200 else []) if x["executionArn"] == ex]
            if not listed:
                ctx.violation("execution-not-listed-under-its-state-machine", dict(case, record=dict(rec)), None)
            foreign = [x for x in (b.get("executions", []) if code == 200 else []) if x.get("stateMachineArn") != sm]
            if foreign:
                ctx.violation("execution-of-another-state-machine-listed", dict(case, stateMachineArn=sm, foreign=foreign), None)
        elif typ == "STANDARD":
            ctx.violation("no-record-for-standard-execution", dict(case), None)
        want = (sm, ename, ex)
        for site_name, vals in sites.items():
            ctx.count("derivation_sites_compared", len(vals))
            for v in vals:
                if v != want:
                    ctx.violation("identifier-derived-differently:" + site_name, dict(case, returned_by_StartExecution=want, derived=v), None)
        if not sites:
            ctx.violation("no-observable-surface", dict(case), None)
        if ctx.counters["engine_level_runs"] % 23 == 1:
            ctx.sample(dict(case, executionArn=ex, sites={k2: sorted(map(list, v)) for k2, v in sites.items()}))


def run(ctx):
    check_arn_functions(ctx)
    check_names(ctx)
    for k in range(ctx.pick(160, 20000)):
        if ctx.mine(k):
            engine_level(ctx, k)


def witnesses(ctx):
    with World(seed=ctx.seed) as w:
        w.create_machine("base", {"StartAt": "A", "States": {"A": {"Type": "Pass", "End": True}}})
        judge_name(ctx, w, "a\n:b", "execution")
        judge_name(ctx, w, "a\n:b", "machine")


def replay(ctx, doc):
    print(json.dumps(doc["witness"], indent=1)[:3000])
    w_ = doc["witness"]
    if "name" in w_:
        with World(seed=0) as w:
            w.create_machine("base", {"StartAt": "A", "States": {"A": {"Type": "Pass", "End": True}}})
            judge_name(ctx, w, w_["name"], "execution" if "executionArn" in w_ else "machine")
