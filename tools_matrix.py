#!/usr/bin/env python3
"""
Seed x check matrix: every confirmed seeded change (seeded/<id>/<change>/patch.diff) is applied to a scratch worktree of /repo HEAD (never to
/repo itself) and every check's quick tier is run against that worktree (LSF_REPO), with evidence redirected to a scratch directory.
Writes seeded/matrix.json and updates each meta.json's "checks_run".   Usage: tools_matrix.py [seed ids...] [--checks C01,C02]
"""
import json, os, subprocess, sys, glob, shutil, re

WT, EV = os.environ.get("MATRIX_WT", "/tmp/lsf-matrix-wt"), os.environ.get("MATRIX_EV", "/tmp/lsf-matrix-evidence")
# the checks are run from the tree this script lives in (under `vp run` that is the snapshot of the commit, so that /verif may be edited
# meanwhile); the results are written to /verif/seeded
ROOT = os.path.dirname(os.path.abspath(__file__))


def sh(cmd, cwd=None, env=None, timeout=3600):
    p = subprocess.run(cmd, shell=True, cwd=cwd, env=env, stdout=subprocess.PIPE, stderr=subprocess.STDOUT, text=True, timeout=timeout)
    return p.returncode, p.stdout


def main():
    args = [a for a in sys.argv[1:] if not a.startswith("--")]
    checks = None
    for a in sys.argv[1:]:
        if a.startswith("--checks"):
            checks = a.split("=", 1)[1].split(",")
    manifest = json.load(open(os.path.join(ROOT, "MANIFEST.json")))
    all_checks = [c["property_id"] for c in manifest["checks"]]
    own = "--own" in sys.argv
    only_changes = [a.split("=", 1)[1].split(",") for a in sys.argv[1:] if a.startswith("--changes=")]
    checks = checks or all_checks
    seeds = []
    for d in sorted(glob.glob("/verif/seeded/C*/change*")):
        pid = d.split("/")[-2]
        if (not args or pid in args) and (not only_changes or d.split("/")[-1] in only_changes[0]):
            seeds.append(d)
    sh("git -C /repo worktree remove --force %s" % WT)
    rc, out = sh("git -C /repo worktree add --detach %s HEAD" % WT)
    assert rc == 0, out
    matrix_path = "/verif/seeded/matrix.json"
    matrix = json.load(open(matrix_path)) if os.path.exists(matrix_path) else {}
    head = sh("git -C /repo rev-parse --short HEAD")[1].strip()
    verif_commit = sh("git -C %s rev-parse --short HEAD" % ROOT)[1].strip().splitlines()[-1]
    try:
        for d in seeds:
            name = "/".join(d.split("/")[-2:])
            sh("git reset -q --hard && git clean -fdq", cwd=WT)
            rc, out = sh("git apply %s/patch.diff" % d, cwd=WT)
            if rc != 0:
                print(name, "PATCH DOES NOT APPLY", out[-200:]); continue
            row = matrix.setdefault(name, {})
            for c in ([d.split("/")[-2]] if own else checks):
                shutil.rmtree(EV, ignore_errors=True); os.makedirs(EV)
                env = dict(os.environ, LSF_REPO=WT, LSF_EVIDENCE_DIR=EV)
                rc, out = sh("./check %s --tier quick" % c, cwd=ROOT, env=env)
                kinds = sorted(set(re.findall(r"VIOLATION property=\S+ replay=\S+ kind=(\S+)", out)))
                row[c] = {"exit": rc, "verdict": "VIOLATION" if rc == 1 else "held" if rc == 0 else "inconclusive", "kinds": kinds[:6], "repo_head": head, "verif": verif_commit}
            caught = [c for c in row if row[c]["verdict"] == "VIOLATION"]
            print(name, "caught by", caught, flush=True)
            # several runs of this tool may work on disjoint sets of changes at once: merge under a lock
            import fcntl
            with open(matrix_path + ".lock", "w") as lk:
                fcntl.flock(lk, fcntl.LOCK_EX)
                cur = json.load(open(matrix_path)) if os.path.exists(matrix_path) else {}
                cur[name] = row
                json.dump(cur, open(matrix_path, "w"), indent=1, sort_keys=True)
            mp = os.path.join(d, "meta.json")
            meta = json.load(open(mp))
            meta["checks_run"] = {"how": "patch applied to a scratch worktree of /repo HEAD %s; ./check <id> --tier quick with LSF_REPO pointing at it" % head,
                                  "caught_by": sorted(c for c, r in row.items() if r["verdict"] == "VIOLATION"),
                                  "held": sorted(c for c, r in row.items() if r["verdict"] == "held"),
                                  "kinds": {c: r["kinds"] for c, r in row.items() if r["verdict"] == "VIOLATION"}}
            json.dump(meta, open(mp, "w"), indent=1)
    finally:
        sh("git -C /repo worktree remove --force %s" % WT)
        shutil.rmtree(EV, ignore_errors=True)


if __name__ == "__main__":
    main()
